#!/usr/bin/env python3
"""Confirm every seeded change myself: patch applies to /repo HEAD (scratch worktree), the repository's own
suite still passes with it, its demonstration fails with it and passes without it. Updates meta.json['verified']."""
import json, os, subprocess, sys, tempfile, shutil, re
filt = sys.argv[1] if len(sys.argv) > 1 else ""
head = subprocess.run(["git", "-C", "/repo", "rev-parse", "--short", "HEAD"], capture_output=True, text=True).stdout.strip()
for name in sorted(os.listdir("/verif/seeded")):
    d = f"/verif/seeded/{name}"
    if filt and filt not in name or not os.path.isdir(d):
        continue
    meta = json.load(open(f"{d}/meta.json"))
    wt = tempfile.mkdtemp(prefix="vf-ver-"); os.rmdir(wt)
    subprocess.run(["git", "-C", "/repo", "worktree", "add", "-q", "--detach", wt, "HEAD"], check=True)
    env = dict(os.environ, PYTHONPATH=f"{wt}/src")
    res = {"repo_head": head}
    try:
        demo = f"{d}/demo.py"
        r0 = subprocess.run(["timeout", "900", "/venv/bin/python", demo], cwd=wt, env=env, capture_output=True, text=True)
        res["demo_exit_without_change"] = r0.returncode
        ap = subprocess.run(["git", "-C", wt, "apply", f"{d}/patch.diff"], capture_output=True, text=True)
        res["patch_applies"] = ap.returncode == 0
        if ap.returncode == 0:
            t = subprocess.run(["/venv/bin/python", "-m", "pytest", "-q", "-p", "no:cacheprovider", "--timeout=900"], cwd=wt, env=env, capture_output=True, text=True)
            m = re.search(r"(\d+) passed", t.stdout)
            res["suite_with_change"] = t.stdout.strip().split("\n")[-1]
            r1 = subprocess.run(["timeout", "900", "/venv/bin/python", demo], cwd=wt, env=env, capture_output=True, text=True)
            res["demo_exit_with_change"] = r1.returncode
        res["ok"] = bool(res.get("patch_applies") and "302 passed" in res.get("suite_with_change", "") and "failed" not in res.get("suite_with_change", "")
                         and res.get("demo_exit_with_change") == 1 and res.get("demo_exit_without_change") == 0)
    finally:
        subprocess.run(["git", "-C", "/repo", "worktree", "remove", "--force", wt], capture_output=True)
        shutil.rmtree(wt, ignore_errors=True)
    meta["verified"] = res
    json.dump(meta, open(f"{d}/meta.json", "w"), indent=1)
    print(name, "OK" if res["ok"] else "PROBLEM", {k: v for k, v in res.items() if k != "repo_head"})
