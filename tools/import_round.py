#!/usr/bin/env python3
"""Copy a sub-agent's output (/tmp/mut2-<ID>/m<i>/{patch.diff,demo.py,notes.md}) into /verif/seeded/<ID>-r2m<i>/ with a meta.json.
usage: tools/import_round.py [--round N] <ID> [<ID>...]     (default round 2: /tmp/mut2-<ID> -> seeded/<ID>-r2m<i>)"""
import json, os, re, shutil, sys
args = sys.argv[1:]
rnd = "2"
ORIGIN = {"6": "told that a harness exists that covers sizes, every entry point, fault / crash injection on other file systems, object reuse, fresh-process concurrency and locales, and asked for what even that misses: the environment (variables, permissions, cwd, terminals, files changing underfoot), exact boundary values, three-way interactions, interrupts other than OSError, results that differ only in what the obvious comparison ignores (tools/agent_prompts/round6_template.txt)", "5": "told that a harness of many small random cases exists and asked for scale thresholds, fast paths, three-way conditions, call sequences / state, dropped plumbing on one call path, error and platform paths (tools/agent_prompts/round5_template.txt)"}
if args and args[0] == "--round":
    rnd = args[1]
    args = args[2:]
for p in args:
    for m in ["m1", "m2", "m3"]:
        src = f"/tmp/mut{rnd}-{p}/{m}"; dst = f"/verif/seeded/{p}-r{rnd}{m}"
        if not os.path.exists(f"{src}/patch.diff"):
            print("missing", src); continue
        os.makedirs(dst, exist_ok=True)
        for f in ["patch.diff", "demo.py", "notes.md"]:
            shutil.copy(f"{src}/{f}", f"{dst}/{f}")
        notes = open(f"{src}/notes.md").read()
        mm = re.search(r"(?ms)^[-*] \**(?:Needs|Manifests|What it needs|Needs to manifest)[^\n]*(?:\n  [^\n]*)*", notes)
        needs = re.sub(r"\s+", " ", mm.group(0)[2:]).strip() if mm else re.sub(r"\s+", " ", notes)[:400]
        meta = {"property": p, "id": f"{p}-r{rnd}{m}",
                "origin": f"round {rnd}: independent sub-agent given only the property record and a scratch worktree of the repaired tree; " + ORIGIN.get(rnd, "asked for second-order / cross-site changes"),
                "needs_to_manifest": needs, "ported_to_current_tree": False, "port_note": None}
        json.dump(meta, open(f"{dst}/meta.json", "w"), indent=1)
        print(dst, len(needs))
