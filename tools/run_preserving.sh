#!/bin/bash
# Applies every property-PRESERVING change under /verif/preserving to a scratch worktree and runs ALL checks on it:
# every check must stay silent (exit 0; exit 3 = inconclusive is reported separately). usage: tools/run_preserving.sh [filter] [IDs...]
cd "$(dirname "$0")/.."
FILTER="${1:-}"; shift
IDS="${@:-C01 C02 C03 C04 C05 C06 C07 C08 C09 C10 C11 C12 C13 C14 C15 C16 C17 C18}"
for p in preserving/*.diff; do
  name=$(basename "$p" .diff); [[ -n "$FILTER" && "$name" != *"$FILTER"* ]] && continue
  WT=$(mktemp -d /tmp/vf-pres-XXXXXX); rmdir "$WT"
  git -C /repo worktree add -q --detach "$WT" HEAD || continue
  if git -C "$WT" apply "$PWD/$p" 2>/dev/null; then
    for id in $IDS; do
      out=$(VF_REPO="$WT" ./check "$id" --tier quick --no-evidence 2>&1); rc=$?
      [ $rc -ne 0 ] && echo "$name $id rc=$rc $(echo "$out" | grep -E '^(violation|INCONCLUSIVE)' | head -2 | cut -c1-260 | tr '\n' ' ')"
    done
    echo "$name done"
  else echo "$name NOAPPLY"; fi
  git -C /repo worktree remove --force "$WT" >/dev/null 2>&1; rm -rf "$WT"
done
