#!/bin/bash
# Re-base seeded patches that no longer apply to /repo HEAD because a later fix: commit touched neighbouring lines.
# Tries `patch --fuzz=3` in a scratch worktree (never in /repo); on success rewrites patch.diff and marks meta.json.
# usage: tools/rebase_seeded.sh [filter]      prints: <id> applies | rebased | FAILED
cd "$(dirname "$0")/.."
FILTER="${1:-}"
WT=$(mktemp -d /tmp/vf-rebase-XXXXXX); rmdir "$WT"
git -C /repo worktree add -q --detach "$WT" HEAD || exit 1
for d in seeded/*/; do
  id=$(basename "$d"); [[ -n "$FILTER" && "$id" != *"$FILTER"* ]] && continue
  git -C "$WT" checkout -q -- . ; git -C "$WT" clean -fdq
  if git -C "$WT" apply --check "$PWD/$d/patch.diff" 2>/dev/null; then continue; fi
  if (cd "$WT" && patch -p1 --fuzz=3 -s --no-backup-if-mismatch < "$OLDPWD/$d/patch.diff" >/dev/null 2>&1); then
    find "$WT" -name '*.rej' -o -name '*.orig' | grep -q . && { echo "$id FAILED (rejects)"; continue; }
    # a hunk placed by fuzz may land in the wrong place: the result must at least import
    (cd "$WT" && PYTHONPATH="$WT/src" /venv/bin/python -c "import flowmark, flowmark.cli" >/dev/null 2>&1) || { echo "$id FAILED (does not import after fuzz)"; continue; }
    (cd "$WT" && git diff) > "$d/patch.diff"
    python3 - "$d/meta.json" <<'PY'
import json,sys
p=sys.argv[1]; m=json.load(open(p)); m["ported_to_current_tree"]=True
m["port_note"]=(m.get("port_note") or "")+" | context lines re-based with patch --fuzz on a later HEAD; the change itself is the same"
json.dump(m,open(p,"w"),indent=1)
PY
    echo "$id rebased"
  else
    echo "$id FAILED"
  fi
done
git -C /repo worktree remove --force "$WT"
