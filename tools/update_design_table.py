#!/usr/bin/env python3
"""Regenerate the seeded-changes table of DESIGN.md 8.6 from seeded/*/meta.json (tools/seeded_table.py) and fill in the counts.
usage: tools/update_design_table.py"""
import json, os, re, subprocess
p = "/verif/DESIGN.md"
s = open(p).read()
table = subprocess.run(["python3", "/verif/tools/seeded_table.py"], capture_output=True, text=True).stdout
a = s.index("| seeded id | needs, in order to manifest | first violation reported |")
b = s.index("### 8.7 How the checks were exercised")
s = s[:a] + table.rstrip("\n") + "\n\n" + s[b:]
metas = [json.load(open(f"/verif/seeded/{d}/meta.json")) for d in sorted(os.listdir("/verif/seeded")) if os.path.exists(f"/verif/seeded/{d}/meta.json")]
n = len(metas)
caught = sum(1 for m in metas if m.get("caught_by", {}).get("result") == "caught")
s = re.sub(r"^(?:NSEEDED|\d+) changes under `seeded/`, written in five rounds", f"{n} changes under `seeded/`, written in six rounds", s, flags=re.M)
s = re.sub(r"\*\*(?:NCAUGHT|\d+) of (?:NSEEDED|\d+) are caught at the quick tier\*\*", f"**{caught} of {n} are caught at the quick tier**", s)
open(p, "w").write(s)
print(n, "seeded,", caught, "caught;", "not caught:", [m["id"] for m in metas if m.get("caught_by", {}).get("result") != "caught"])
