#!/bin/bash
# usage: tools/sweep.sh <tier> <seed> [IDs...]   runs checks, prints one line per check
TIER="${1:-quick}"; SEED="${2:-0}"; shift 2
IDS="${@:-C01 C02 C03 C04 C05 C06 C07 C08 C09 C10 C11 C12 C13 C14 C15 C16 C17 C18}"
cd "$(dirname "$0")/.."
for id in $IDS; do
  out=$(VERIF_SEED=$SEED ./check $id --tier $TIER --no-evidence 2>&1); rc=$?
  echo "$id seed=$SEED tier=$TIER rc=$rc $(echo "$out" | grep -E '^(VIOLATION|INCONCLUSIVE)' | head -2 | tr '\n' ' ' | cut -c1-200) $(echo "$out" | grep -o 'HARNESS-ERRORS=[0-9]*' | head -1) $(echo "$out" | grep -o '[0-9.]*s$' | head -1)"
done
