#!/bin/bash
# Runs every seeded change under /verif/seeded against the check(s) of its property in a scratch worktree of /repo HEAD.
# usage: tools/run_seeded.sh [tier] [name-filter]      prints: <seeded id> <check> caught|MISSED|NOAPPLY
cd "$(dirname "$0")/.."
TIER="${1:-quick}"; FILTER="${2:-}"
for d in seeded/*/; do
  id=$(basename "$d"); [[ -n "$FILTER" && ! "$id" =~ $FILTER ]] && continue
  prop=$(python3 -c "import json;print(json.load(open('$d/meta.json'))['property'])")
  WT=$(mktemp -d /tmp/vf-seed-XXXXXX); rmdir "$WT"
  git -C /repo worktree add -q --detach "$WT" HEAD || { echo "$id $prop WORKTREE-FAILED"; continue; }
  if git -C "$WT" apply "$PWD/$d/patch.diff" 2>/dev/null; then
    out=$(VF_REPO="$WT" ./check "$prop" --tier "$TIER" --no-evidence 2>&1); rc=$?
    if [ $rc -eq 1 ] && echo "$out" | grep -q "^VIOLATION property=$prop"; then r=caught; elif [ $rc -eq 3 ]; then r=INCONCLUSIVE; else r=MISSED; fi
    # a change whose effect belongs to another property's clause (meta.json: cross_check) is expected to be caught by that check
    cross=$(python3 -c "import json;print(json.load(open('$d/meta.json')).get('cross_check',''))")
    if [ "$r" = MISSED ] && [ -n "$cross" ]; then
      out=$(VF_REPO="$WT" ./check "$cross" --tier "$TIER" --no-evidence 2>&1); rc=$?
      if [ $rc -eq 1 ] && echo "$out" | grep -q "^VIOLATION property=$cross"; then r=caught; prop="$cross"; fi
    fi
    echo "$id $prop $r $(echo "$out" | grep '^violation' | head -1 | cut -c11-110)"
  else
    echo "$id $prop NOAPPLY"
  fi
  git -C /repo worktree remove --force "$WT" >/dev/null 2>&1; rm -rf "$WT"
done
