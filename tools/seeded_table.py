#!/usr/bin/env python3
"""Print the DESIGN.md table of seeded changes from seeded/*/meta.json. usage: tools/seeded_table.py [filter]"""
import json, os, sys
filt = sys.argv[1] if len(sys.argv) > 1 else ""
print("| seeded id | needs, in order to manifest | first violation reported |")
print("|---|---|---|")
for name in sorted(os.listdir("/verif/seeded")):
    p = f"/verif/seeded/{name}/meta.json"
    if not os.path.exists(p) or (filt and filt not in name):
        continue
    m = json.load(open(p))
    needs = m.get("needs_to_manifest", "").replace("|", "\\|").replace("\n", " ")
    for pre in ("Needs, all together: ", "Needs: ", "Needs ", "**Needs:** ", "**What it needs:** ", "Manifests only when ", "Manifests only for "):
        if needs.startswith(pre):
            needs = needs[len(pre):]
    if len(needs) > 330:
        needs = needs[:327] + "..."
    cb = m.get("caught_by", {})
    fv = cb.get("first_violation", "").split(" x")[0].split(" monitor=")[0]
    port = " (ported)" if m.get("ported_to_current_tree") else ""
    res = cb.get("result", "?")
    print(f"| {name}{port} | {needs} | `{fv}`{'' if res == 'caught' else ' **' + res + '**'} |")
