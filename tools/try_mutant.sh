#!/bin/bash
# usage: tools/try_mutant.sh <patch.diff> <demo.py|-> <ID> [<ID>...]   (env TIER=quick|thorough, SKIPTESTS=1)
# Applies the patch to a scratch worktree of /repo HEAD (never /repo itself), runs the repository's own
# tests there, the demonstration (before/after), then the named checks with VF_REPO pointing at it.
set -u
PATCH="$(realpath "$1")"; DEMO="$2"; shift 2
WT=$(mktemp -d /tmp/vf-mut-XXXXXX); rmdir "$WT"
git -C /repo worktree add -q --detach "$WT" HEAD || exit 9
cleanup() { git -C /repo worktree remove --force "$WT" >/dev/null 2>&1; rm -rf "$WT"; }
trap cleanup EXIT
if [ "$DEMO" != "-" ]; then
  ( cd "$WT" && PYTHONPATH="$WT/src" timeout 600 /venv/bin/python "$(realpath "$DEMO")" >/dev/null 2>&1 ); echo "demo-on-unpatched-exit=$?"
fi
if ! git -C "$WT" apply "$PATCH" 2>/dev/null; then
  if ! git -C "$WT" apply --3way "$PATCH" >/dev/null 2>&1 || grep -rq '^<<<<<<< ' "$WT/src"; then
    echo "PATCH-DOES-NOT-APPLY (conflicts with the current tree)"; exit 8
  fi
  echo "patch applied with 3-way merge"
fi
git -C "$WT" diff --stat | tail -1
if [ -z "${SKIPTESTS:-}" ]; then
  ( cd "$WT" && PYTHONPATH="$WT/src" /venv/bin/python -m pytest -q -p no:cacheprovider --timeout=900 2>&1 | tail -1 )
fi
if [ "$DEMO" != "-" ]; then
  ( cd "$WT" && PYTHONPATH="$WT/src" timeout 600 /venv/bin/python "$(realpath "$DEMO")" >/dev/null 2>&1 ); echo "demo-on-patched-exit=$?"
fi
for ID in "$@"; do
  VF_REPO="$WT" /verif/check "$ID" --tier "${TIER:-quick}" --no-evidence 2>&1 | grep -E "^(VIOLATION|HELD|INCONCLUSIVE|violation|C[0-9]+ tier)" | cut -c1-260 | head -${LINES_MAX:-8}
  echo "check-$ID-exit=${PIPESTATUS[0]}"
done
