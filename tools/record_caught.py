#!/usr/bin/env python3
"""Record the outcome lines of tools/run_seeded.sh in seeded/*/meta.json['caught_by']. usage: tools/record_caught.py <output file> [tier]"""
import json, sys
tier = sys.argv[2] if len(sys.argv) > 2 else "quick"
n = 0
for line in open(sys.argv[1], errors="replace"):
    parts = line.rstrip("\n").split(" ", 3)
    if len(parts) < 3 or not parts[0][:1] == "C":
        continue
    sid, prop, res = parts[:3]
    first = parts[3] if len(parts) > 3 else ""
    p = f"/verif/seeded/{sid}/meta.json"
    try:
        m = json.load(open(p))
    except OSError:
        continue
    m["caught_by"] = {"check": prop, "tier": tier, "result": res, "first_violation": first[:160]}
    m.setdefault("what_i_ran", "tools/verify_seeded.py (patch applies to /repo HEAD in a scratch worktree; repository suite: 302 passed with the change; demo exits 1 with and 0 without the change) and tools/run_seeded.sh quick (the property's check with VF_REPO pointing at the scratch worktree)")
    json.dump(m, open(p, "w"), indent=1)
    n += 1
print("recorded", n)
