"""Access to the code under test (flowmark at VF_REPO) through its public surface only.

Everything a *deciding* monitor uses goes through the names re-exported by `flowmark`
(`flowmark.__all__`), `flowmark.cli.main`, `flowmark.file_resolver.FileResolver*`,
`flowmark.typography.*`, `flowmark.formats.frontmatter.split_frontmatter`.
"""
from __future__ import annotations

import traceback
from typing import Any, Callable

import flowmark
from flowmark import (  # noqa: F401
    Wrap,
    fill_markdown,
    fill_text,
    line_wrap_by_sentence,
    line_wrap_to_width,
    reformat_text,
    wrap_paragraph,
    wrap_paragraph_lines,
)
from flowmark.formats.flowmark_markdown import ListSpacing  # noqa: F401

MD_DEFAULTS = dict(width=88, plaintext=False, semantic=False, cleanups=False, smartquotes=False,
                   ellipses=False, list_spacing="preserve")


def opts_to_kwargs(o: dict) -> dict:
    kw = dict(o)
    if "list_spacing" in kw and isinstance(kw["list_spacing"], str):
        kw["list_spacing"] = ListSpacing(kw["list_spacing"])
    return kw


class Raised:
    """Result wrapper for a call into the code under test that raised."""

    def __init__(self, exc: BaseException):
        self.exc = exc
        tb = traceback.extract_tb(exc.__traceback__)
        last = tb[-1] if tb else None
        self.where = f"{last.filename.split('/')[-1]}:{last.name}" if last else "?"
        self.kind = type(exc).__name__
        self.text = f"{self.kind}: {str(exc)[:200]} @ {self.where}"

    def __repr__(self) -> str:
        return f"<Raised {self.text}>"


def call(fn: Callable, *a: Any, **kw: Any) -> Any:
    """Call into the code under test; an exception is returned as a Raised object, never
    propagated into the harness (CaseTimeout, a BaseException-free Exception subclass raised by
    the harness alarm, is let through)."""
    from vf.core import CaseTimeout

    try:
        return fn(*a, **kw)
    except CaseTimeout:
        raise
    except RecursionError as e:
        return Raised(e)
    except Exception as e:  # noqa: BLE001
        return Raised(e)


def fmt(text: str, **o: Any) -> Any:
    kw = dict(MD_DEFAULTS)
    kw.update(o)
    return call(reformat_text, text, **opts_to_kwargs(kw))
