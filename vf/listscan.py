"""Text-level scan of formatted Markdown for list-item separation (C10): yields, for every pair of
adjacent sibling list items, whether a blank line separates them. Written for the harness; handles
nested lists, block quotes and fenced code; input is flowmark OUTPUT (canonical indentation)."""
from __future__ import annotations

import re

_MARK = re.compile(r"^([-*+]|\d{1,9}[.)])( +|$)")
_FENCE = re.compile(r"^(`{3,}|~{3,})")


def sibling_gaps(lines: list[str], out=None, path="") -> list[tuple[str, bool, str]]:
    """-> [(path, separated_by_blank_line, first line of the second item)]"""
    out = out if out is not None else []
    i = 0
    n = len(lines)
    prev_item_end = None      # index of last non-blank line of the previous sibling item
    prev_kind = None
    fence = None
    while i < n:
        ln = lines[i]
        if fence:
            m = _FENCE.match(ln)
            if m and m.group(1)[0] == fence[0] and len(m.group(1)) >= len(fence) and not ln[len(m.group(1)):].strip():
                fence = None
            i += 1
            continue
        if ln.strip() == "":
            i += 1
            continue
        m = _FENCE.match(ln)
        if m and not (m.group(1)[0] == "`" and "`" in ln[len(m.group(1)):]):
            # (a line that begins with a code span delimited by three or more backticks is not a fence: the info string of a
            # backtick fence holds no backtick)
            fence = m.group(1)
            prev_item_end = None
            i += 1
            continue
        if ln.startswith(">"):
            j = i
            inner = []
            while j < n and lines[j].startswith(">"):
                inner.append(lines[j][2:] if lines[j].startswith("> ") else lines[j][1:])
                j += 1
            sibling_gaps(inner, out, path + ">")
            prev_item_end = None
            i = j
            continue
        m = _MARK.match(ln)
        if m:
            width = len(m.group(0)) if m.group(2) else len(m.group(1)) + 1
            kind = "ol" if m.group(1)[0].isdigit() else m.group(1)
            j = i + 1
            content = [ln[width:]]
            while j < n and (lines[j].strip() == "" or lines[j].startswith(" " * width)):
                content.append(lines[j][width:] if lines[j].strip() else "")
                j += 1
            # trailing blank lines belong to the gap, not to the item
            end = j
            while end > i + 1 and lines[end - 1].strip() == "":
                end -= 1
            if prev_item_end is not None and prev_kind == kind:
                separated = any(lines[k].strip() == "" for k in range(prev_item_end + 1, i))
                out.append((path + kind, separated, ln[:60]))
            sibling_gaps(content[: end - i], out, path + kind + "/")
            prev_item_end = end - 1
            prev_kind = kind
            i = end
            continue
        prev_item_end = None
        i += 1
    return out
