"""Shard worker: runs one shard of a property's workload in its own process.

python -m vf.worker CNN --tier T --seed S --shard I --nshards N --out FILE [--start K] [--cases-file F]

Protocol with the runner: FILE is rewritten atomically every few seconds with the collector
dump plus {"next": idx, "done": bool}; FILE.cur holds the index of the case being executed
(so that after a hard watchdog kill the runner knows which case hung).
"""
from __future__ import annotations

import argparse
import faulthandler
import json
import os
import sys
import time
import traceback

from vf.core import CaseTimeout, Collector, Inconclusive, assert_repo_under_test, load_prop, soft_alarm


def main() -> int:
    ap = argparse.ArgumentParser()
    ap.add_argument("prop")
    ap.add_argument("--tier", default="quick")
    ap.add_argument("--seed", type=int, default=0)
    ap.add_argument("--shard", type=int, default=0)
    ap.add_argument("--nshards", type=int, default=1)
    ap.add_argument("--out", required=True)
    ap.add_argument("--start", type=int, default=0)
    ap.add_argument("--cases-file")
    a = ap.parse_args()

    prop = load_prop(a.prop)
    col = Collector(prop.id)
    per_case: list[list[str]] = []  # only in --cases-file mode: descriptors fired per case
    state = {"next": a.start, "done": False}

    def checkpoint() -> None:
        d = col.dump()
        d.update(state)
        if a.cases_file:
            d["per_case"] = per_case
        tmp = a.out + ".tmp"
        with open(tmp, "w") as f:
            json.dump(d, f, default=str)
        os.replace(tmp, a.out)

    try:
        assert_repo_under_test()
        prop.setup_worker(col, a.tier)
    except Inconclusive as e:
        col.inconcl(str(e))
        state["done"] = True
        checkpoint()
        return 0

    if a.cases_file:
        with open(a.cases_file) as f:
            case_iter = iter(json.load(f))
    else:
        def rounds():
            n = int(os.environ.get("VF_THOROUGH_ROUNDS", prop.thorough_rounds)) if a.tier == "thorough" else 1
            for k in range(max(1, n)):
                for case in prop.cases(a.tier, a.seed + 7919 * k, a.shard, a.nshards):
                    if k and isinstance(case, dict) and case.get("kind") in prop.once_kinds:
                        continue
                    yield case
        case_iter = rounds()

    curfd = os.open(a.out + ".cur", os.O_WRONLY | os.O_CREAT | os.O_TRUNC, 0o644)
    errlog = open(a.out + ".err", "a")
    last_ck = time.monotonic()
    for idx, case in enumerate(case_iter):
        if idx < a.start:
            if a.cases_file:
                per_case.append(["<skipped>"])
            continue
        os.pwrite(curfd, b"%-12d" % idx, 0)
        before = {k: v["count"] for k, v in col.violations.items()}
        soft_t, hard_t = prop.timeouts(case)
        faulthandler.dump_traceback_later(hard_t, exit=True, file=errlog)
        try:
            with soft_alarm(soft_t, cpu=bool(getattr(prop, "soft_clock_cpu", False))):
                prop.check(case, col)
        except CaseTimeout:
            prop.on_timeout(case, col, False)
        except Inconclusive as e:
            col.inconcl(str(e))
        except Exception:
            col.count("harness_errors")
            col.note("harness error: " + traceback.format_exc(limit=6)[-900:])
        finally:
            faulthandler.cancel_dump_traceback_later()
        if not col.samples and not a.cases_file:
            # every evidence file shows at least one actual case of this run
            col.sample({"case": json.loads(json.dumps(case, default=str)[:4000]) if len(json.dumps(case, default=str)) < 4000
                        else {"case_head": json.dumps(case, default=str)[:1500]}})
        if a.cases_file:
            per_case.append([k for k, v in col.violations.items() if v["count"] > before.get(k, 0)])
        state["next"] = idx + 1
        now = time.monotonic()
        if now - last_ck > 3.0:
            checkpoint()
            last_ck = now
    try:
        prop.teardown_worker(col)
    except Exception:
        col.note("teardown error: " + traceback.format_exc(limit=4)[-500:])
    state["done"] = True
    checkpoint()
    return 0


if __name__ == "__main__":
    sys.exit(main())
