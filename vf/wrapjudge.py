"""Oracle for line-wrapping results (C05; reused by C01-C, C06, C11).

judge(...) takes what went into a wrapper and the lines that came out and returns a list of
(kind, detail) deviations. It never imports flowmark internals except the public word splitter
(get_html_md_word_splitter) which defines what a 'word' is for the width/maximality clauses;
what may count as atomic is judged independently by C06.
"""
from __future__ import annotations

import re

from flowmark import get_html_md_word_splitter

_WS = re.compile(r"\s+")
_ESC_SPECIAL = re.compile(r"^\\([-*+>#=~`|_])")
_ESC_NUM = re.compile(r"^(\d+)\\([.)])")
_TAG_CLOSE = ("%}", "#}", "}}", "-->")
_TAG_OPEN = ("{%", "{#", "{{", "<!--")


def norm(s: str) -> str:
    return _WS.sub(" ", s).strip()


def unescape_variants(body: str) -> list[str]:
    """A line as emitted, plus the same line without a protecting backslash on its first word."""
    out = [body]
    m = _ESC_SPECIAL.match(body)
    if m:
        out.append(body[1:])
    m = _ESC_NUM.match(body)
    if m:
        out.append(m.group(1) + m.group(2) + body[m.end():])
    return out


def consume(tokens: list[str], bodies: list[str], allow_escape: bool = True, first_line_escape: bool = False):
    """Assign the splitter's tokens (of the whole input) to the emitted lines, in order.
    A line must be a run of consecutive tokens joined by single spaces; the first token of a
    continuation line may carry a protecting backslash. Returns (ok, first bad line,
    per-line token lists, per-line 'backslash added' flags)."""
    pos = 0
    per_line: list[list[str]] = []
    escaped: list[bool] = []
    for i, b in enumerate(bodies):
        if b == "":
            per_line.append([])
            escaped.append(False)
            continue
        hit = None
        for vi, cand in enumerate(unescape_variants(b) if ((i > 0 or first_line_escape) and allow_escape) else [b]):
            acc = ""
            k = pos
            while k < len(tokens) and len(acc) < len(cand):
                acc = tokens[k] if not acc else norm(acc + " " + tokens[k])
                k += 1
                if not cand.startswith(acc):
                    # a token may have been glued to the next one only between two tags
                    break
            if acc == cand:
                hit = (k, vi)
                break
        if hit is None:
            return False, i, per_line, escaped
        per_line.append(tokens[pos:hit[0]])
        escaped.append(hit[1] > 0)
        pos = hit[0]
    if pos < len(tokens):
        return False, len(bodies), per_line, escaped
    return True, -1, per_line, escaped


def strip_indents(lines: list[str], ii: str, si: str) -> tuple[list[str] | None, int]:
    bodies = []
    for i, ln in enumerate(lines):
        ind = ii if i == 0 else si
        if ln.startswith(ind):
            bodies.append(ln[len(ind):])
        elif ln == ind.rstrip() or ln.strip() == "":
            bodies.append("")
        else:
            return None, i
    return bodies, -1


def judge(text: str, lines: list[str], width: int, ii: str, si: str, *, fill: bool,
          first_col: int | None = None, check_indent: bool = True, one_line_segments: int | None = None,
          fill_width: int | None = None, allow_escape: bool = True, first_line_escape: bool = False, lenf=len, plain_tokens: bool = False):
    """text: what the wrapper was given (one segment: no hard breaks / tag newlines);
    lines: emitted lines including indents; width: configured width.
    first_col: column at which the first line starts if different from len(ii).
    fill_width: width against which maximality is judged (defaults to width)."""
    dev: list[tuple[str, dict]] = []
    S = norm(text)
    if check_indent:
        bodies, bad = strip_indents(lines, ii, si)
        if bodies is None:
            dev.append(("indent", {"line": bad, "got": lines[bad][:60], "want_prefix": ii if bad == 0 else si}))
            return dev
    else:
        bodies = list(lines)
    nb = [norm(b) for b in bodies]
    if not S:
        if any(nb):
            dev.append(("lossless", {"why": "output for empty input", "lines": lines[:3]}))
        return dev
    # Reader-independent first: the characters that came out are the characters that went in (white space aside, and a
    # protecting backslash on the first word of a line). The token-based clauses below take their words from the splitter of
    # the code under test, which would agree with itself about a word it mangles on both sides.
    flat, pos, bad_line = S.replace(" ", ""), 0, -1
    for i, b in enumerate(nb):
        if not b:
            continue
        for cand in (unescape_variants(b) if ((i > 0 or first_line_escape) and allow_escape) else [b]):
            c = cand.replace(" ", "")
            if flat.startswith(c, pos):
                pos += len(c)
                break
        else:
            bad_line = i
            break
    if bad_line >= 0 or pos != len(flat):
        dev.append(("lossless", {"why": "characters differ from the input", "line": bad_line if bad_line >= 0 else len(nb),
                                 "got": (nb[bad_line] if bad_line >= 0 else "<text missing at the end>")[:80], "input_at": flat[pos:pos + 40]}))
        return dev
    split = get_html_md_word_splitter()
    if plain_tokens:
        # the text is known (by construction) to hold no atomic construct: its words are its white-space separated tokens,
        # whatever the splitter of the code under test thinks
        split = lambda t: t.split()  # noqa: E731
    tokens = [norm(t) for t in split(S)]
    ok, bad, toks, esc = consume(tokens, nb, allow_escape, first_line_escape)
    if not ok:
        # The wrapper may have cut inside what the splitter treats as one token (semantic mode
        # splits sentences on plain whitespace; C06 judges that). Losslessness is then decided on
        # plain whitespace words, and breakability per emitted line.
        ok, bad, toks, esc = consume(S.split(" "), nb, allow_escape, first_line_escape)
        if ok:
            toks = [[norm(t) for t in split(b)] for b in nb]
    if not ok:
        dev.append(("lossless", {"line": bad, "got": (nb[bad] if bad < len(nb) else "<missing text>")[:80],
                                 "tokens": tokens[:6]}))
        return dev
    if width <= 0:
        want = one_line_segments if one_line_segments is not None else 1
        if len(lines) != want:
            dev.append(("nowrap-lines", {"lines": len(lines), "want": want}))
        return dev
    c0 = first_col if first_col is not None else lenf(ii)
    for i, b in enumerate(nb):
        col = c0 if i == 0 else lenf(si)
        if col + lenf(b) > width and len(toks[i]) > 1:
            dev.append(("overlong", {"line": i, "len": col + lenf(b), "width": width, "excess": col + lenf(b) - width,
                                     "indent": col, "first_word_len": lenf(toks[i][0]), "text": b[:100]}))
    if fill:
        fw = fill_width if fill_width is not None else width
        for i in range(len(nb) - 1):
            col = c0 if i == 0 else lenf(si)
            nxt = toks[i + 1][0] if toks[i + 1] else ""
            if nb[i] and col + lenf(nb[i]) + 1 + lenf(nxt) <= fw:
                dev.append(("not-maximal", {"line": i, "len": col + lenf(nb[i]), "next_word": nxt[:40], "width": fw,
                                            "slack": fw - (col + lenf(nb[i]) + 1 + lenf(nxt))}))
    return dev
