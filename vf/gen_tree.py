"""G-tree: directory trees for the file-discovery properties (C17, C18)."""
from __future__ import annotations

import os
import random
import subprocess

DIRNAMES = ["docs", "src", "a", "b", "d1", "d2", "sub dir", ".hidden", "drafts", "guide", "Docs", "issue #12", "issue"]
EXCLUDED_DIRNAMES = ["node_modules", "build", ".venv", "x.egg-info", "vendor", "__pycache__", ".hg"]
FILENAMES = ["a.md", "b.md", "c.md", "README.md", "x.mdx", "n.txt", ".dot.md", "sp ace.md", "UP.MD", "d.md", "ch#1.md", "x#.md", "readme.md", "n #1.md", "n", "cafe\u0301.md", "caf\u00e9.md", " #x.md", "[a.md"]
GIT_ENV = dict(os.environ, GIT_CONFIG_GLOBAL="/dev/null", GIT_CONFIG_NOSYSTEM="1", HOME="/nonexistent", GIT_CEILING_DIRECTORIES="/tmp")

# gitignore pattern language: basename, anchored, multi-segment, dir-only, *, **, ?, classes, negation, escapes, comments
PATTERNS = ["*.tmp", "b.md", "/b.md", "d1/b.md", "d1/", "/d1/", "d?/", "**/c.md", "d1/**", "!b.md", "!d2/c.md", "d1/*.md", "*.md", "!*.md",
            "# comment", "\\#x.md", "c.md ", "[ab].md", "d1/d2/", "/*.md", "**/d2/**", "docs/", "!docs/", "a.md", "!a.md", "/docs/a.md",
            "docs/**/b.md", "*/c.md", "README.md", "!README.md", "guide/*", "!guide/a.md", "sub dir/", "sp ace.md", "", "  ", "*.MD",
            "d1/d2/c.md", "!/d1/d2/c.md", "**/", "a*", "?.md", "ch#*.md", "*#.md", "!ch#1.md", "x#.md", "docs/ch#1.md", "issue #12/", "n #1.md", "readme.md", "Docs/", "!issue/", "*.md", "!README.md",
            # names are compared as written: a precomposed pattern does not match a decomposed file name and vice versa
            "cafe\u0301.md", "caf\u00e9.md", "!cafe\u0301.md", "/caf\u00e9.md",
            # '#' is a comment only in the first column; a line ends at LF and at nothing else (not at FF, VT, U+2028)
            " #x.md", "a.md\x0cb.md", "c.md\u2028README.md", " b.md",
            # lines git reads without complaint but that match nothing: an empty pattern (with '!' or a directory slash), a
            # trailing unescaped backslash, an unclosed '['
            "/", "!", "!/", "\\", "a.md\\", "b.md\\ ", "[a.md", "!docs/[b", "[a-", "d1/\\"]


def build_tree(r: random.Random, root: str, *, excluded_names=True, symlinks=False, sizes=False, depth=4) -> dict:
    """Create a random tree under root. Returns {'dirs': [...], 'files': {rel: size}, 'links': {rel: target}}."""
    dirs = [""]
    for _ in range(r.randint(2, 8)):
        parent = r.choice(dirs)
        if parent.count("/") + (1 if parent else 0) >= depth:
            continue
        name = r.choice(DIRNAMES + (EXCLUDED_DIRNAMES if excluded_names and r.random() < 0.4 else []))
        d = os.path.join(parent, name) if parent else name
        if d not in dirs:
            dirs.append(d)
    files = {}
    for d in dirs:
        os.makedirs(os.path.join(root, d), exist_ok=True)
        for f in FILENAMES:
            if r.random() < 0.45:
                size = 3
                if sizes and r.random() < 0.3:
                    size = r.choice([99, 100, 101, 150])
                rel = os.path.join(d, f) if d else f
                with open(os.path.join(root, rel), "w") as fh:
                    fh.write("x" * size)
                files[rel] = size
    links = {}
    if symlinks:
        outside = os.path.join(os.path.dirname(root), "outside")
        os.makedirs(os.path.join(outside, "odir"), exist_ok=True)
        for n in ("o.md", "odir/p.md"):
            with open(os.path.join(outside, n), "w") as fh:
                fh.write("out")
        for _ in range(r.randint(1, 4)):
            d = r.choice(dirs)
            kind = r.choice(["file-in", "file-out", "dir-in", "dir-out", "cycle", "broken"])
            name = r.choice(["ln.md", "lnk", "l2.md", "ldir"])
            rel = os.path.join(d, name) if d else name
            if os.path.lexists(os.path.join(root, rel)):
                continue
            if kind == "file-in" and files:
                target = os.path.join(root, r.choice(sorted(files)))
            elif kind == "file-out":
                target = os.path.join(outside, "o.md")
            elif kind == "dir-in":
                target = os.path.join(root, r.choice(dirs))
            elif kind == "dir-out":
                target = os.path.join(outside, "odir")
            elif kind == "cycle":
                target = root
            else:
                target = os.path.join(root, "does-not-exist.md")
            os.symlink(target, os.path.join(root, rel))
            links[rel] = (kind, target)
    return {"dirs": dirs, "files": files, "links": links}


def git_listing(root: str) -> list[str]:
    """Files git would NOT ignore (relative paths), isolated from any user/system configuration."""
    subprocess.run(["git", "init", "-q", root], env=GIT_ENV, check=True, capture_output=True)
    out = subprocess.run(["git", "-C", root, "ls-files", "-co", "--exclude-standard", "-z"], env=GIT_ENV, check=True,
                         capture_output=True).stdout.decode("utf-8", "surrogateescape").split("\0")
    return [p for p in out if p]
