"""Protected-span locator written for the harness (C08, C09): character ranges of a formatted Markdown
text that are not prose — code blocks, code spans, template tags, HTML comments and tags, URLs / link
destinations / definitions, backslash-escaped characters. Purely textual; imports nothing from flowmark."""
from __future__ import annotations

import re

_FENCE = re.compile(r"^(?P<pfx>(?:[ >]|\d+[.)] +|[-*+] +|\[\^[^\]]+\]: +)*)(?P<f>`{3,}|~{3,})(?P<info>.*)$")
_INLINE = re.compile(
    r"(?P<code>(?<!`)(`+)(?!`).+?(?<!`)\2(?!`))"
    r"|(?P<tag>\{%.*?%\}|\{\{.*?\}\}|\{#.*?#\})"
    r"|(?P<comment><!--.*?-->)"
    r"|(?P<auto><[A-Za-z][A-Za-z0-9+.-]*:[^ <>]*>)"
    # an inline HTML tag as CommonMark defines it (tag name, well-formed attributes): '<see the "docs > api" page>' is prose
    r"|(?P<html><[A-Za-z][A-Za-z0-9-]*(?:\s+[A-Za-z_:][\w.:-]*(?:\s*=\s*(?:[^\s\"'=<>`]+|'[^']*'|\"[^\"]*\"))?)*\s*/?>|</[A-Za-z][A-Za-z0-9-]*\s*>)"
    r"|(?P<dest>\]\((?:[^()\s]|\([^()]*\))*(?:\s+\"[^\"]*\")?\))"
    r"|(?P<url>(?:https?://|www\.|mailto:)[^\s<>]*)"
    r"|(?P<esc>\\[!-/:-@\[-`{-~])", re.S)
_DEF = re.compile(r"^(?:[ >]*)\[[^\]]+\]:\s+\S.*$")


def protected(text: str) -> list[tuple[int, int, str]]:
    spans: list[tuple[int, int, str]] = []
    pos = 0
    fence = None
    prose_runs: list[tuple[int, int]] = []
    for line in text.split("\n"):
        end = pos + len(line)
        m = _FENCE.match(line)
        if fence is None:
            if m and not (m.group("f")[0] == "`" and "`" in m.group("info")):
                fence = (m.group("f")[0], len(m.group("f")))
                spans.append((pos, end, "codeblock"))
            elif _DEF.match(line) and not line.lstrip(" >").startswith("[^"):
                spans.append((pos, end, "definition"))
            else:
                prose_runs.append((pos, end))
        else:
            spans.append((pos, end, "codeblock"))
            body = line[len(m.group("pfx")):] if m else ""
            if m and m.group("f")[0] == fence[0] and len(m.group("f")) >= fence[1] and not m.group("info").strip():
                fence = None
        pos = end + 1
    # inline constructs may span soft line breaks: scan maximal runs of consecutive prose lines
    runs: list[tuple[int, int]] = []
    for a, b in prose_runs:
        if runs and runs[-1][1] + 1 == a and text[runs[-1][0]:runs[-1][1]].strip() and text[a:b].strip():
            runs[-1] = (runs[-1][0], b)
        else:
            runs.append((a, b))
    for a, b in runs:
        for m in _INLINE.finditer(text, a, b):
            spans.append((m.start(), m.end(), m.lastgroup or "inline"))
    return sorted(spans)


def inside(spans, i: int):
    for a, b, k in spans:
        if a <= i < b:
            return k
        if a > i:
            break
    return None
