"""Literal-span extractor (C04, C08, C09): the ordered sequence of everything that is not prose,
taken from a normalised tree (vf.astn). One extractor for input and output."""
from __future__ import annotations

import re

_TAG = re.compile(r"\{%.*?%\}|\{\{.*?\}\}|\{#.*?#\}|<!--.*?-->", re.S)
_WS = re.compile(r"\s+")


def _ws(s):
    return _WS.sub(" ", s).strip() if isinstance(s, str) else s


def spans(node, out=None) -> list:
    out = out if out is not None else []
    if not isinstance(node, tuple) or not node:
        return out
    k = node[0]
    if not isinstance(k, str):
        for x in node:
            spans(x, out)
        return out
    if k == "CODEBLOCK":
        out.append(("codeblock-info", node[1]))
        out.append(("codeblock-body", node[2], node[3] if len(node) > 3 else None))
    elif k == "CODE":
        out.append(("code", _ws(node[1])))
    elif k == "HTML":
        out.append(("html", _ws(node[1])))
    elif k == "AUTO":
        out.append(("url", node[2] if len(node) > 2 and node[2] else node[1]))
    elif k in ("LINK", "IMG"):
        out.append(("dest", node[1]))
        out.append(("title", node[2]))
        spans(node[3], out)
    elif k == "LRD":
        out.append(("lrd", node[1], node[2], node[3]))
    elif k == "FNREF":
        out.append(("fnref", node[1]))
    elif k == "FNDEF":
        out.append(("fndef", node[1]))
        spans(node[2], out)
    elif k == "T":
        for m in _TAG.finditer(node[1]):
            out.append(("tag", _ws(m.group(0))))
    elif k == "HTMLBLOCK":
        out.append(("html", _ws(node[1])))
    else:
        for x in node[1:]:
            spans(x, out)
    return out


def first_diff(a: list, b: list):
    for i, (x, y) in enumerate(zip(a, b)):
        if x != y:
            return i, x, y
    if len(a) != len(b):
        i = min(len(a), len(b))
        return i, (a[i] if i < len(a) else None), (b[i] if i < len(b) else None)
    return None
