"""Core of the runtime-monitoring framework: collector, property base class, helpers.

A *property module* (vf/props/cNN.py) exposes PROP, an instance of a Prop subclass:
    cases(tier, seed, shard, nshards) -> iterator of JSON-serialisable case dicts
    check(case, col)                  -> runs the REAL code on the case, feeds monitors
A *case* is always replayable on its own: `./check CNN --replay file` re-runs check(case).
"""
from __future__ import annotations

import hashlib
import json
import os
import random
import signal
import sys
import time
from collections import Counter, defaultdict
from typing import Any, Iterator

VF_HOME = os.environ.get("VF_HOME", os.path.dirname(os.path.dirname(os.path.abspath(__file__))))
VF_REPO = os.environ.get("VF_REPO", "/repo")


def h8(*parts: Any) -> str:
    m = hashlib.blake2b(digest_size=6)
    for p in parts:
        m.update(repr(p).encode("utf-8", "surrogatepass"))
        m.update(b"\x1f")
    return m.hexdigest()


def shard_rng(seed: int, prop: str, shard: int, stream: str = "") -> random.Random:
    d = hashlib.sha256(f"{seed}/{prop}/{shard}/{stream}".encode()).digest()
    return random.Random(int.from_bytes(d[:8], "big"))


class CaseTimeout(Exception):
    pass


class Inconclusive(Exception):
    """Raised by a property when a deciding monitor cannot be evaluated at all
    (public seam missing, external oracle unavailable)."""


class Collector:
    """Accumulates what the monitors observed. One per worker; merged by the runner."""

    MAX_SAMPLES = 6
    MAX_VIOL_PER_DESC = 3

    def __init__(self, prop_id: str):
        self.prop_id = prop_id
        self.evaluations = 0
        self.nontrivial: set[str] = set()
        self.counters: Counter[str] = Counter()
        self.hists: dict[str, Counter[str]] = defaultdict(Counter)
        self.monitors: dict[str, dict[str, int]] = defaultdict(lambda: {"evaluations": 0, "fired": 0})
        self.samples: list[Any] = []
        self.violations: dict[str, dict[str, Any]] = {}
        self.inconclusive: list[str] = []
        self.notes: list[str] = []
        self._sample_rng = random.Random(12345)
        self._seen_samples = 0

    # --- feeding -----------------------------------------------------------------
    def case(self, n: int = 1) -> None:
        self.evaluations += n

    def distinct(self, *key: Any) -> None:
        """Record a distinct non-trivial case (rule is the property's)."""
        self.nontrivial.add(h8(*key))

    def count(self, name: str, n: int = 1) -> None:
        self.counters[name] += n

    def hist(self, name: str, key: Any, n: int = 1) -> None:
        self.hists[name][str(key)] += n

    def mon(self, name: str, n: int = 1) -> None:
        self.monitors[name]["evaluations"] += n

    def sample(self, s: Any) -> None:
        # reservoir sampling so samples are spread over the run
        self._seen_samples += 1
        if len(self.samples) < self.MAX_SAMPLES:
            self.samples.append(s)
        else:
            j = self._sample_rng.randrange(self._seen_samples)
            if j < self.MAX_SAMPLES:
                self.samples[j] = s

    def violation(self, monitor: str, descriptor: str, case: Any, detail: Any) -> None:
        self.monitors[monitor]["fired"] += 1
        v = self.violations.get(descriptor)
        if v is None:
            v = self.violations[descriptor] = {
                "property": self.prop_id,
                "monitor": monitor,
                "descriptor": descriptor,
                "count": 0,
                "witnesses": [],
            }
        v["count"] += 1
        if len(v["witnesses"]) < self.MAX_VIOL_PER_DESC:
            v["witnesses"].append({"case": case, "detail": detail})
        else:
            # keep the smallest witnesses
            size = len(json.dumps(case, default=str))
            big = max(range(len(v["witnesses"])), key=lambda i: len(json.dumps(v["witnesses"][i]["case"], default=str)))
            if size < len(json.dumps(v["witnesses"][big]["case"], default=str)):
                v["witnesses"][big] = {"case": case, "detail": detail}

    def inconcl(self, reason: str) -> None:
        if reason not in self.inconclusive:
            self.inconclusive.append(reason)

    def note(self, s: str) -> None:
        if s not in self.notes and len(self.notes) < 40:
            self.notes.append(s)

    # --- (de)serialisation -----------------------------------------------------
    def dump(self) -> dict[str, Any]:
        return {
            "evaluations": self.evaluations,
            "nontrivial": sorted(self.nontrivial),
            "counters": dict(self.counters),
            "hists": {k: dict(v) for k, v in self.hists.items()},
            "monitors": {k: dict(v) for k, v in self.monitors.items()},
            "samples": self.samples,
            "violations": self.violations,
            "inconclusive": self.inconclusive,
            "notes": self.notes,
        }

    def merge(self, d: dict[str, Any]) -> None:
        self.evaluations += d["evaluations"]
        self.nontrivial.update(d["nontrivial"])
        self.counters.update(d["counters"])
        for k, v in d["hists"].items():
            self.hists[k].update(v)
        for k, v in d["monitors"].items():
            self.monitors[k]["evaluations"] += v["evaluations"]
            self.monitors[k]["fired"] += v["fired"]
        for s in d["samples"]:
            self.sample(s)
        for desc, v in d["violations"].items():
            mine = self.violations.get(desc)
            if mine is None:
                self.violations[desc] = v
            else:
                mine["count"] += v["count"]
                mine["witnesses"] = sorted(
                    mine["witnesses"] + v["witnesses"], key=lambda w: len(json.dumps(w["case"], default=str))
                )[: self.MAX_VIOL_PER_DESC]
        for r in d["inconclusive"]:
            self.inconcl(r)
        for n in d["notes"]:
            self.note(n)


class Prop:
    id = "C00"
    level = "exploration"
    technique = "runtime monitoring"
    rule = ""
    assumptions: list[str] = []
    # per-case soft timeout (SIGALRM -> CaseTimeout) and hard timeout (faulthandler exit)
    # thorough tier = this many rounds of the case generator with different derived seeds (kinds listed in once_kinds are
    # deterministic enumerations and run in the first round only); env VF_THOROUGH_ROUNDS overrides
    thorough_rounds = 3
    once_kinds: tuple = ()
    soft_timeout = 20.0
    hard_timeout = 90.0
    soft_clock_cpu = False  # True: the soft budget counts CPU time of the worker, not wall-clock time
    # names of deciding monitors -> minimal number of evaluations for a 'held' verdict
    deciding: dict[str, int] = {}
    min_nontrivial = 2
    parallel = True

    def nshards(self, tier: str) -> int:
        return 16 if self.parallel else 1

    def setup_worker(self, col: Collector, tier: str) -> None:
        pass

    def teardown_worker(self, col: Collector) -> None:
        pass

    def cases(self, tier: str, seed: int, shard: int, nshards: int) -> Iterator[dict]:
        raise NotImplementedError

    def check(self, case: dict, col: Collector) -> None:
        raise NotImplementedError

    def timeouts(self, case: dict) -> tuple[float, float]:
        """(soft, hard) time budget for one case."""
        return self.soft_timeout, self.hard_timeout

    def on_timeout(self, case: dict, col: Collector, hard: bool) -> None:
        """A case exceeded its time budget. Default: counted; only C12 judges it."""
        col.count("hard_timeouts" if hard else "soft_timeouts")

    def extra_evidence(self, col: Collector, tier: str) -> dict[str, Any]:
        return {}


class soft_alarm:
    """Per-case soft timeout: SIGALRM raises CaseTimeout in the main thread. Pure-Python
    loops (marko's) are interrupted; a single long C call is not (the hard timeout covers it)."""

    def __init__(self, seconds: float, cpu: bool = False):
        """cpu=True: the budget is CPU time of this process (ITIMER_PROF): a loaded machine does not use it up, a busy loop
        does; a call that sleeps for ever is left to the hard (wall-clock) watchdog."""
        self.seconds = seconds
        self.sig, self.timer = (signal.SIGPROF, signal.ITIMER_PROF) if cpu else (signal.SIGALRM, signal.ITIMER_REAL)

    def _handler(self, signum, frame):
        raise CaseTimeout()

    def __enter__(self):
        if self.seconds and self.seconds > 0:
            self._old = signal.signal(self.sig, self._handler)
            signal.setitimer(self.timer, self.seconds)
        return self

    def __exit__(self, *exc):
        if self.seconds and self.seconds > 0:
            signal.setitimer(self.timer, 0)
            signal.signal(self.sig, self._old)
        return False


def assert_repo_under_test() -> str:
    """Every check must execute the working tree at VF_REPO, not an installed copy."""
    import flowmark

    f = os.path.realpath(flowmark.__file__)
    want = os.path.realpath(os.path.join(VF_REPO, "src"))
    if not f.startswith(want + os.sep):
        raise Inconclusive(f"flowmark imported from {f}, expected under {want}")
    return f


def load_prop(prop_id: str) -> Prop:
    import importlib

    mod = importlib.import_module(f"vf.props.{prop_id.lower()}")
    return mod.PROP


def jdump(obj: Any) -> str:
    return json.dumps(obj, ensure_ascii=False, default=str)
