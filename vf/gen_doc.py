"""G-doc: grammar-based Markdown document generator (tree + layout PRNG).

gen_doc(seed, profile, layout_seed) builds a document *tree* from `seed` and serialises it with a
separate layout PRNG that owns every free layout choice (where soft breaks go, how many spaces
between words, how continuation lines are indented, lazy continuation, blank-line counts).
A re-layout (C03) is a second serialisation of the same tree with another layout seed, hence
meaning-preserving by construction. Code, tables, hard breaks and newlines adjacent to a
tag/comment are never layout choices.

Profiles:
  core     documents of the kinds users write; oracles apply with no exemption
  typo     core + dense quotes / apostrophes / dot runs (C08, C09)
  tags     core + template-tag lines and tag-delimited blocks (C06)
  hostile  core + hazard tokens in prose, unusual but valid nesting (tables/headings in containers, ...)
"""
from __future__ import annotations

import random
from dataclasses import dataclass, field

from vf.gen_para import SENT_END, long_atom

NOT_END = ["Mr.", "A.", "U.S.", "e.g.", "ok:", "THE.", "x."]

WORDS = ("the quick brown fox jumps over a lazy dog while many other small words fill out this sentence "
         "nicely and keep going on for some time alpha beta gamma delta epsilon 2024 3.14 e.g. U.S. item "
         "value=3 x-y a/b naïve café Ünïcode state-of-the-art foo_bar 100% $5 @you semi; colon: (paren) "
         "verylongwordthatgoesonandon x").split(" ") + ["20\u202fkm", "a\u00a0b"] + ["b}}", "100%}", "-->", "see#}"]  # closers that close nothing  # narrow / no-break spaces inside a word (at word edges: own sub-workload in C02)
CJK = ["中文", "日本語", "汉字abc", "abc汉字"]
TYPO = ['"quoted"', "'single'", "it's", "don't", "James'", "wait...", "...so", "and...then", '"two', 'words"',
        "x=\"v\"", "'tis", "rock'n'roll", '("paren")', "end...\"", "—\"dash\"", "hmm....", "a . . . b", "..",
        "\"nested", "'inner'", "quotes\"", "Jill's", "\\\"esc\\\"", "5'10\"", "don't...can't", "it's...isn't", "'x'...'y'",
        "word…", "…word", "“…and", "a … b", "wait... (so", "and... [x]", "hmm... \"q\"",
        # a closing quote BEFORE the sentence punctuation (the sentence-end rule must know the converted character too)
        '"promising".', "'fine'!", '"why"?', "(\"ok\").",
        # abbreviations and titles directly next to a quote (whatever the sentence heuristic thinks of them, it must think the
        # same of the straight and of the curly spelling)
        '"Dr.', "'Mrs.", '"Prof.', 'vs."', '("Mr.', '"etc."', "'approx.'", '"e.g.', "Dr.'s", '"St.',
        # not an HTML tag (white space after '<' is missing, but the quoted '>' ends it early): prose with quotes
        '<see the "docs > api" page>']
CODE_CORE = ["`x`", "`a b`", "`foo(bar, baz)`", "`--flag value`", "`*not em*`", "`<tag attr>`", "`it's \"q\"...`",
             "`a|b`", "`{% t %}`", "`[l](u)`", "`` a`b ``", "`` `x` ``", "``` a``b ```", "`` `a - b ``", "`` 1. `x` # y ``",
             "`a  b`", "`- x`",
             # CJK next to ASCII letters/digits inside a span: the CJK/Latin spacing is for prose only
             "`pip安装flowmark`", "`v2中文`", "`~/.config/tool`", "`a~b`",
             # tag delimiters inside code are code (the multi-line tag workaround must not split the line there)
             "`a%}{%/x%}`", "`x --><!-- /y -->`", "``` c``d %}{% /e ```"]
CODE_HOSTILE = ["`end. Next`", "` x `"]
LINK_CORE = ["[link](http://ex.com/a)", "[two words](http://ex.com/a_b?q=1&r=2)", "[a b c](http://u.v/w \"T t\")",
             "![alt text](img.png)", "![a](i.png \"ti tle\")", "<https://example.org/path>", "[*em* link](http://x.y/z)",
             "[with `code` in](http://x.y)", "https://bare.example.com/p?q=1", "[it's \"q\"](http://q.uo/te's)",
             "<mailto:a@b.co>", "https://en.wikipedia.org/wiki/O'Reilly_Media", "<https://x.y/it's>",
             "[same dest](http://ref.example/x)", "[same dest](http://ref.example/x \"Different\")", "[same dest](/rel/path_a \"Title here\")",
             # autolinks whose resolved target differs from what is written (scheme added by the reader)
             "www.example.com/chef's-menu", "<a.b@c.example>", "www.bare.example.org",
             "<https://example.org/notes.txt~>", "https://github.com/org/repo/compare/v1.0...v2.0", "<https://x.y/a...b>",
             "[sp](<http://x.y/a b>)", "![i](<my img.png> \"t\")", "[p](<http://x.y/(a>)",
             "[文档](https://example.com/wiki/中文doc)", "https://example.com/文档v2", "![图alt](img中文2.png)",
             # quotes that are part of the title; other title delimiters
             "[qt](http://x.y/q '\"quoted\" title')", "[pt](http://x.y/p (paren \"q\" t))",
             # a backslash that is part of the destination (written doubled before punctuation; a bare one before a letter)
             "[bs](docs\\\\*star.md)", "[win](C:\\dir\\file.md)", "[endbs](<dir name\\\\>)", "![bsi](p\\\\_q.png)"]
LINK_HOSTILE = ["[sp](<http://x.y/a b>)", "[t](http://x.y 'single')", "[p](http://x.y (paren))", "[dots. End](http://x.y)",
                "[nested [br]](http://x.y)", "[e](http://x.y/(a))", "www.bare.example.org"]
HTML_INL = ["<span class=\"a b\">", "</span>", "<br/>", "<b>", "</b>", "<a href=\"http://x.y/z\" title=\"t's\">", "</a>",
            # white space around '=' is allowed in a tag; the value holds words that look like block markers
            "<span title = \"alpha - beta 1. gamma\">", "<a href= \"x\" title =\"# one > two\">"]
TAG_INL = ["{% tag %}", "{% tag a=1 b=\"two words\" %}", "{{ var }}", "{{ a.b | f(\"x y\") }}", "{# note's #}",
           "<!-- c \"q\" -->", "{% f %}{% /f %}", "{% if x %}", "{% endif %}", "{% t x=\"a...b\" %}", "{{ a...b }}",
           "<!-- wait... \"q\" it's -->", "{# it's... so #}",
           "{% tag \"中文abc\" %}", "<!-- 汉字note2 -->", "{{ 变量name }}",
           "{% field placeholder=\"" + "Type a really long answer here please " * 14 + "and then stop...\" it's=\"x\" %}",
           # a tag body may contain the first character of its own closing delimiter
           # what is inside a tag is not Markdown: dunder names, underscores and stars that would pair as emphasis
           "{{ __version__ }}", "{% if obj.__class__ == x %}", "{# _note_ to self #}", "{{ a*b + c*d }}", "{% set t = _(\"Hello\") + _x_ %}",
           "{% if n % 10 == 0 and s == \"Loading...please wait\" %}", "{# issue #12: later...maybe it's #}", "{{ {\"a\": \"wait...what\"}|tojson }}"]
ESCAPES = ["\\*", "\\_", "\\#", "\\[x\\]", "\\>", "a\\|b", "&amp;", "&lt;", "&#35;", "&copy;", "3\\)", "\\-", "\\+",
           # dots escaped on purpose (not an ellipsis); an escaped period in mid-text (the escape is dropped: v1.2)
           "so\\.\\.\\.", "hm..\\.", "v1\\.2"]
# an escaped ordered-list marker: not in documents with tag lines (listed finding *-escaped-number-in-tag-paragraph: the
# escape is dropped and the tag handler then takes the line for a list item; exercised by its own sub-workload in C01/C02)
ESCAPES_NUM = ["1999\\."]
HAZ = ["-", "+", "*", ">", "#", "##", "1.", "2)", "10.", "---", "===", "=", "--", "***", "___", "```", "~~~",
       ">>", "|", "+x", "#tag", "1.5", "\\", "[x]", "[ ]", "<", "&", ":", "- - -", "* * *", "~", "|a|b|", "<div>"]
INFO = ["", "", "python", "sh -x", "c++", "text title=\"a b\"", "{.cls #id}", "a\\*b c\\*d", "x\\\\y"]
CODE_LINES = ["x = 1", "", "  indented", "> not quote", "- not list", "# no heading", "\ttab", "trailing  ", "1. n",
              "    deep", "a `b` c", "it's \"q\"...", "<b>&amp;</b>", "{% t %}", "[l]: http://u", "| a | b |", "***",
              "\\", "http://x.y", "end \\",
              # characters str.splitlines() treats as line ends but Markdown does not (FF is left out: marko itself turns it into LF)
              "sep\u2028arator", "nel\x85here", "vt\x0btab fs\x1cx"]
ALERTS = ["NOTE", "TIP", "IMPORTANT", "WARNING", "CAUTION"]
FRONTMATTER = ("---\ntitle: \"It's a 'test'... of **everything**\"\ntags:\n  - a\n  -   \"b c\"\n\nlong: " + "word " * 40 +
               "\nurl: http://x.y/z?a=1&b=2\n---\n")


@dataclass
class Doc:
    text: str
    feats: set
    tree: list
    seed: int
    layout_seed: int
    profile: str
    stats: dict = field(default_factory=dict)


def _is_tagword(w: str) -> bool:
    # (a closing delimiter that closes nothing -- 'b}}', '100%}', '-->' -- is an ordinary word)
    return w.startswith(("{%", "{{", "{#", "<!--")) or (w.endswith(("%}", "}}", "#}", "-->")) and any(o in w for o in ("{%", "{{", "{#", "<!--")))


_BLOCKSTART = ("-", "+", "*", ">", "#", "=", "`", "~", "|", "_", "<", ":", "[", "\\", "&")


def _could_start_block(w: str) -> bool:
    if w[:1] in "*_" and len(w) > 1 and (w[1].isalnum() or (w[1] in "*_" and len(w) > 2 and w.strip("*_")[:1].isalnum())):
        return False  # emphasis opener, not a bullet / rule
    if w[:1] == "`" and (not w.startswith("```") or "`" in w.lstrip("`")):
        return False  # a code span, also one delimited by three or more backticks (a backtick fence has no backtick in its info string)
    if w[:2] == "~~" and not w.startswith("~~~"):
        return False
    if w[:1] == "[" and not w.startswith("[^"):
        return False
    if w[:1] in "\\&" and len(w) > 1:
        return False
    return w[:1] in _BLOCKSTART or (w[:1].isdigit() and (w.rstrip(".)") != w))


def _unindent_fence(b: dict) -> None:
    if b.get("deep"):
        b["lines"] = [ln for ln in b["lines"] if ln != b["deep"]]
    b["indent"] = 0


class Gen:
    def __init__(self, seed: int, profile: str, scale: int = 1):
        self.r = random.Random(seed)
        self.profile = profile
        # scale > 1: documents of the sizes small random cases never reach (lists of 10+ / 100+ items whose markers gain a
        # digit, tables of dozens of rows, long code blocks, many blocks, long paragraphs). scale == 1 draws exactly the
        # same random numbers as before (witnesses stored by seed stay valid).
        self.scale = scale
        self.feats: set = set()
        self.fn_labels: list[str] = []
        self.ref_labels: list[str] = []
        self.hostile = profile == "hostile"
        self.typo = profile in ("typo",)
        self.tags = profile in ("tags",)

    # ---------------------------------------------------------------- inline
    def word(self) -> str:
        r = self.r
        k = r.random()
        if self.typo and k < 0.30:
            self.feats.add("typo")
            return r.choice(TYPO)
        if k < 0.82:
            return r.choice(WORDS)
        if k < 0.86:
            self.feats.add("cjk")
            return r.choice(CJK)
        if k < 0.90:
            self.feats.add("escape")
            return r.choice(ESCAPES + ESCAPES_NUM if not self.tags else ESCAPES)
        if k < 0.93:
            return r.choice(NOT_END)
        return "".join(r.choice("abcdefghijklmnop") for _ in range(r.randint(1, 14)))

    def atom(self) -> str:
        r = self.r
        if self.scale > 1 and r.random() < 0.05:
            # a construct of several hundred to several thousand characters (a bound a pattern might put on its length)
            self.feats.add("long-atom")
            a = long_atom(r)
            self.feats.add("codespan" if a.startswith("`") else ("link" if a.startswith("[") else ("inline-html" if a.startswith("<s") else "inline-tag")))
            return a
        k = r.random()
        if k < 0.30:
            self.feats.add("codespan")
            if self.hostile and r.random() < 0.3:
                self.feats.add("codespan-hostile")
                return r.choice(CODE_HOSTILE)
            return r.choice(CODE_CORE)
        if k < 0.62:
            self.feats.add("link")
            if self.hostile and r.random() < 0.25:
                self.feats.add("link-hostile")
                return r.choice(LINK_HOSTILE)
            return r.choice(LINK_CORE)
        if k < 0.70:
            self.feats.add("inline-html")
            return r.choice(HTML_INL)
        if k < 0.80 or self.tags:
            self.feats.add("inline-tag")
            return r.choice(TAG_INL)
        if k < 0.88 and self.fn_labels:
            self.feats.add("fnref")
            return f"[^{r.choice(self.fn_labels)}]"
        if k < 0.94 and self.ref_labels:
            self.feats.add("reflink")
            lab = r.choice(self.ref_labels)
            return r.choice([f"[{lab}]", f"[some text][{lab}]", f"[{lab}][]"])
        self.feats.add("strike")
        w = r.choice(WORDS)
        # delimiter runs whose flanking depends on what stands outside them (punctuation inside: a soft line break outside
        # must count as whitespace exactly like a space does)
        return r.choice(["~~" + w + "~~", "~~" + w + "~~", "~(" + w + ")~", "~~(" + w + ").~~", "~" + w + "~", "*(" + w + ")*",
                         "**\"" + w + "\"**", "_(" + w + ")_"])

    def words(self, n: int, atoms: float = 0.12, allow_first_atom: bool = True) -> list[str]:
        r = self.r
        out: list[str] = []
        i = 0
        while i < n:
            k = r.random()
            if k < atoms and (out or allow_first_atom):
                a = self.atom()
                if not out and (_is_tagword(a) or a.startswith("<")):
                    a = r.choice(WORDS)  # paragraphs do not start with a tag / html (tag lines are separate blocks)
                out.append(a)
                i += 1
            elif k < atoms + 0.07 and i + 2 <= n:
                d = r.choice(["*", "_", "**", "__", "***", "~~", "~"])
                self.feats.add("strike" if d[0] == "~" else ("emphasis" if len(d) == 1 else "strong"))
                m = r.randint(1, 3)
                ws = [r.choice(WORDS) for _ in range(m)]
                ws[0] = d + ws[0]
                ws[-1] = ws[-1] + d
                # (not in very long paragraphs: marko's delimiter matching becomes unreliable when a '*' inside a word is
                # followed by hundreds of other delimiter runs; it then reads a later '**x**' as literal stars, although
                # CommonMark and markdown-it read strong emphasis. That tests the reader, not flowmark.)
                if len(d) == 1 and d != "~" and m >= 2 and n <= 60 and r.random() < 0.15:
                    # emphasis nested in emphasis where it touches a letter: only '*' can open / close inside a word
                    self.feats.add("emphasis-nested-in-word")
                    ws[1] = r.choice(["*in*ner", "*b*c", "*b*c"]) + (d if m == 2 else "")
                out.extend(ws)
                i += m
            elif self.hostile and k < atoms + 0.07 + 0.10 and out:
                self.feats.add("hazard")
                out.append(r.choice(HAZ))
                i += 1
            else:
                out.append(self.word())
                i += 1
        return out

    def sentence(self, maxw: int = 12) -> list[str]:
        r = self.r
        ws = self.words(r.randint(1, maxw))
        end = r.choice(SENT_END)
        if ws and ws[-1][-1:] in "*_" and r.random() < 0.5:
            pass
        ws.append(end)
        if ws[0][:1].isalpha():
            ws[0] = ws[0][0].upper() + ws[0][1:]
        return ws

    def para(self, maxsent: int = 4) -> dict:
        r = self.r
        segs = []
        nseg = 1 if r.random() < 0.9 else r.randint(2, 3)
        long_para = r.random() < 0.01  # a paragraph of more than 8 KB (a length at which another code path might take over)
        if self.scale > 1 and r.random() < 0.04:
            maxsent = maxsent * self.scale
        for _ in range(nseg):
            ws: list[str] = []
            for _ in range(r.randint(1, maxsent) if not long_para else r.randint(120, 200)):
                ws.extend(self.sentence())
            if len(segs) > 0 or nseg > 1:
                # a segment before/after a hard break must not start with something block-like
                if _could_start_block(ws[0]) or _is_tagword(ws[0]):
                    ws[0] = "Then"
            segs.append(ws)
        if any(_is_tagword(w) for ws in segs for w in ws):
            # listed finding *-escaped-number-in-tag-paragraph: no escaped ordered marker in a paragraph that has tags
            segs = [[("1999" if w == "1999\\." else w) for w in ws] for ws in segs]
        elif any(w == "1999\\." for ws in segs for w in ws):
            self.feats.add("escaped-number")
        if long_para:
            self.feats.add("long-paragraph")
        if nseg > 1:
            self.feats.add("hardbreak")
        self.feats.add("para")
        if not self.hostile and _could_start_block(segs[0][0]):
            segs[0][0] = "Word"
        if r.random() < 0.05:
            # an escaped list-marker look-alike as first word: the escape must survive
            segs[0].insert(0, r.choice(["1\\.", "2024\\.", "7\\)", "\\-", "\\#", "\\+", "\\>"]))
            self.feats.add("escaped-marker-start")
        return {"t": "para", "segs": segs, "hb": [r.choice(["\\", "  "]) for _ in range(nseg - 1)]}

    # ---------------------------------------------------------------- blocks
    def block(self, depth: int, ctx: str) -> dict:
        """ctx: 'top' | 'item' | 'quote' | 'fn'"""
        r = self.r
        k = r.random()
        if depth >= 3 or k < 0.34:
            return self.para()
        if k < 0.44:
            if ctx != "top" and not self.hostile and (ctx == "fn" or r.random() < 0.5):
                return self.para()
            if ctx != "top":
                self.feats.add("heading-in-container")
            self.feats.add("heading")
            style = "atx"
            level = r.randint(1, 6)
            if r.random() < 0.15:
                style = "setext"
                level = r.randint(1, 2)
                self.feats.add("setext")
            ws = self.words(r.randint(1, 6), atoms=0.08, allow_first_atom=False)
            kind = r.random()
            if kind < 0.30 and (any(w[:1] in "*_" or w[-1:] in "*_" for w in ws) or "://" in ws[-1] or "://" in ws[0] or ws[-1].startswith("www.") or ws[0].startswith("www.")):
                kind = 1.0  # no emphasis nested directly inside the all-bold wrapper
            if kind < 0.15:
                ws = ["**" + ws[0]] + ws[1:]
                ws[-1] = ws[-1] + "**"
                self.feats.add("bold-heading")
            elif kind < 0.22:
                ws = ["***" + ws[0]] + ws[1:]
                ws[-1] = ws[-1] + "***"
                self.feats.add("bold-italic-heading")
            elif kind < 0.30:
                ws = ws + ["**part", "bold**"]
                self.feats.add("partly-bold-heading")
            if _could_start_block(ws[0]) and not ws[0].startswith("*"):
                ws[0] = "Title"
            if style == "setext" and r.random() < 0.15 and kind >= 0.30:
                ws.append(r.choice(["#", "##", "C#"]))  # not a closing sequence in a setext heading: part of the text
                self.feats.add("setext-hash-tail")
            return {"t": "heading", "level": level, "style": style, "words": ws,
                    "closing": r.random() < 0.1 and style == "atx"}
        if k < 0.64:
            if ctx == "fn":
                return self.para()  # marko reads lists inside footnote definitions unreliably (see DESIGN)
            return self.list_(depth, ctx)
        if k < 0.74:
            if ctx == "fn":
                return self.para()
            alert = r.random() < 0.25 and ctx in ("top", "item")
            self.feats.add("alert" if alert else "quote")
            n = r.randint(1, 3)
            blocks = self.blocks(depth + 1, "quote", n)
            if alert and blocks[0]["t"] != "para":
                blocks.insert(0, self.para(2))
            d = {"t": "quote", "blocks": blocks}
            if not alert and r.random() < 0.12:
                d["trailing_blank"] = True
            if alert:
                d["alert"] = r.choice(ALERTS)
                d["alert_case"] = r.choice(["upper", "upper", "lower", "title"])
            return d
        if k < 0.84:
            return self.code(ctx)
        if k < 0.91:
            if ctx == "item" and not self.hostile:
                return self.para()  # marko does not read a table inside a list item as a table
            if ctx != "top":
                self.feats.add("table-in-container")
            return self.table()
        if k < 0.95:
            self.feats.add("hr")
            return {"t": "hr", "s": r.choice(["---", "***", "* * *", "___", "- - -", "*****"])}
        if ctx == "top":
            if r.random() < 0.5:
                lab = f"ref{len(self.ref_labels) + 1}"
                if r.random() < 0.4:
                    lab = f"ref label {len(self.ref_labels) + 1}"  # several words: the spaces inside the brackets are layout
                    if self.typo and r.random() < 0.4:
                        # dot runs that are already spaced the way the ellipsis rule spaces them: the converted text differs from
                        # the label only in the character itself
                        lab = r.choice(["and so on ... {}", "... and more {}", "wait ... what {}"]).format(len(self.ref_labels) + 1)
                self.ref_labels.append(lab)
                self.feats.add("lrd")
                title = r.choice([None, None, '"Title here"', '"it\'s"', "'single q'", "(paren t)", "'say \"hi\" now'"])
                return {"t": "lrd", "label": lab, "dest": r.choice(["http://ref.example/x", "/rel/path_a", "<http://a.b/c>"]),
                        "title": title}
            lab = f"n{len(self.fn_labels) + 1}"
            self.fn_labels.append(lab)
            self.feats.add("fndef")
            nb = r.choice([1, 1, 2])
            # marko's reading of lists nested inside lists inside a footnote is unreliable: keep them flat
            blocks = [self.para(2)] + self.blocks(depth + 2, "fn", nb - 1)
            return {"t": "fndef", "label": lab, "blocks": blocks}
        return self.para()

    def code(self, ctx: str) -> dict:
        r = self.r
        if r.random() < 0.2 and ctx in ("top", "quote"):
            self.feats.add("indented-code")
            lines = [r.choice([c for c in CODE_LINES if c.strip()]) for _ in range(r.randint(1, 3))]
            lines = [ln.lstrip() if i == 0 else ln for i, ln in enumerate(lines)]
            if r.random() < 0.4:
                self.feats.add("fence-like-content")
                lines.insert(r.randint(0, len(lines)), r.choice(["```", "~~~", "``` x", "````", "  ```"]))
                lines[0] = lines[0].lstrip()
            return {"t": "icode", "lines": [ln.rstrip() or "x" for ln in lines]}
        self.feats.add("fence")
        ch = r.choice(["`", "`", "~"])
        n = r.choice([3, 3, 3, 4, 5])
        info = r.choice(INFO)
        if ch == "`" and "`" in info:
            info = "python"
        lines = [r.choice(CODE_LINES) for _ in range(r.randint(0, 5) if self.scale == 1 else r.choice([r.randint(0, 5), r.randint(20, 30 * self.scale)]))]
        if r.random() < 0.35:
            self.feats.add("fence-like-content")
            other = "~" if ch == "`" else "`"
            lines.insert(r.randint(0, len(lines)), r.choice([other * 3, other * 4 + " x", ch * (n - 1) if n > 3 else other * 3,
                                                              "  " + other * 3, ch * n + " not closing"]))
        # a line consisting only of >= n fence chars would close the fence: keep content valid
        lines = [ln + " x" if (ln.strip() and set(ln.strip()) == {ch} and len(ln.strip()) >= n) else ln for ln in lines]
        # blank lines at the start and at the end of the code are code too; whitespace-only ones are normalised to empty
        lines = [ln if ln.strip() else "" for ln in lines]
        if r.random() < 0.15:
            # a documentation sample inside the code block: an inner fence line with an info string (content, since a
            # closing fence carries no info string) followed by tag / list / table look-alike lines
            self.feats.add("code-sample-with-tags")
            lines += [ch * n + r.choice(["python", " sh", "md title"]), "{% t %}", "- not list", "| a | b |", "{% /t %}", "text"]
        ind = r.choice([0, 0, 0, 1, 2, 3]) if ctx == "top" else 0
        if ind and r.random() < 0.6:
            # a bare fence run that is content only because it sits >= 4 columns in (source fence indented by
            # `ind`): once the block is re-emitted flush with its container it would close the fence early
            self.feats.add("indented-fence-with-deep-fence-run")
            k = r.randint(4 - ind, 3)
            deep = " " * k + ch * r.randint(n, n + 1)
            lines.insert(r.randint(0, len(lines)), deep)
            lines.append("after")
            return {"t": "fence", "ch": ch, "n": n, "info": info, "lines": lines, "indent": ind, "deep": deep, "close_extra": 0}
        return {"t": "fence", "ch": ch, "n": n, "info": info, "lines": lines, "indent": ind, "close_extra": r.choice([0, 0, 0, 1, 2]),
                "close_trail": r.choice(["", "", "", "", "  ", "\t"])}  # white space after the closing fence is allowed

    def table(self) -> dict:
        r = self.r
        self.feats.add("table")
        n = r.randint(1, 4) if self.scale == 1 else r.choice([r.randint(1, 4), r.randint(5, 12)])

        def cell() -> list[str]:
            k = r.random()
            if k < 0.15:
                return []
            if k < 0.3:
                return [r.choice(["`x`", "`a\\|b`", "*e*", "**s**", "1\\|2", "[l](http://u.v)", "~~d~~", "it's", "\"q\""])]
            return [self.word() for _ in range(r.randint(1, 3))]

        rows = [[cell() for _ in range(n)] for _ in range(r.randint(1, 4) if self.scale == 1 else r.choice([r.randint(1, 4), r.randint(10, 12 * self.scale)]))]
        # (stock marko does not read a table whose header cell begins with dashes, '| --> x |': that would test the reader)
        rows = [[(["x" + c[0]] + c[1:]) if c and c[0].startswith("-") else c for c in row] for row in rows]
        if not any(rows[0]):
            rows[0][0] = ["H"]
        rows[0] = [c or ["h"] for c in rows[0]]
        outer = r.random() < 0.85
        if not outer:
            rows = [[c or ["c"] for c in row] for row in rows]  # rows without outer pipes need visible cells
        return {"t": "table", "aligns": [r.choice(["---", ":--", "--:", ":-:", "--", ":---:"]) for _ in range(n)],
                "rows": rows, "outer": outer}

    def list_(self, depth: int, ctx: str) -> dict:
        r = self.r
        ordered = r.random() < 0.4
        task = (not ordered) and r.random() < 0.15
        self.feats.add("olist" if ordered else ("tasklist" if task else "ulist"))
        tight = r.random() < 0.55
        nitems = r.randint(1, 4)
        if self.scale > 1 and depth <= 1 and not getattr(self, "_in_big", False):
            # enough items for an ordered list to gain a digit (9 -> 10, 99 -> 100) and for "every item" loops to matter
            nitems = r.choice([nitems, nitems, r.randint(5, 9), r.randint(10, 14), r.randint(10, 14), 101 + r.randint(0, 9) if depth == 0 and self.scale >= 8 else r.randint(15, 30)])
            self.feats.add("list-%s-items" % ("100+" if nitems > 100 else ("10+" if nitems >= 10 else "<10")))
        items = []
        big = nitems > 9 and not getattr(self, "_in_big", False)
        if big:
            self._in_big = True  # lists nested inside a long list stay small
        for _ in range(nitems):
            blocks = [self.para(2 if tight else 3)]
            if task:
                blocks[0]["task"] = r.choice([" ", "x", "X"])
            extra = r.random()
            if nitems > 9 and r.random() < (0.7 if nitems < 15 else 0.92):
                extra = 1.0  # long lists: mostly one-paragraph items (keeps the document size linear in the item count)
            if not task and depth < 2 and r.random() < 0.06:
                # an item whose only block is a block quote (a single block: the list may still be tight)
                blocks = [{"t": "quote", "blocks": self.blocks(depth + 1, "quote", r.randint(1, 2))}]
                self.feats.add("quote-only-item")
                extra = 1.0
            if extra < 0.30 and depth < 2:
                sub = self.list_(depth + 1, "item")
                if tight and sub["ordered"]:
                    sub["start"] = 1  # only a list starting at 1 can interrupt the item's paragraph
                blocks.append(sub)
                self.feats.add("nested-list")
            elif not tight and extra < 0.55:
                blocks.append(self.block(depth + 1, "item"))
                self.feats.add("multi-block-item")
            items.append(blocks)
        if big:
            self._in_big = False
        if not task and r.random() < 0.06:
            # a thematic break as the whole content of an item (the rule must not merge with the bullet into one long rule)
            items[r.randrange(nitems)] = [{"t": "hr", "s": "item"}]
            self.feats.add("hr-in-item")
        if nitems > 1 and not task and r.random() < 0.08:
            # an item with no content at all (just its marker); never the first one (after a paragraph line a lone '-' would
            # be a setext underline)
            items[r.randint(1, nitems - 1)] = []
            self.feats.add("empty-item")
        if r.random() < (0.1 if self.hostile else 0.05):
            self.feats.add("list-first-child-list")
            items[0] = [self.list_(depth + 1, "item")] if depth < 2 else items[0]
            if depth < 2 and r.random() < 0.3:
                # ... of nothing but empty items (no block inside ever resets what the opening list set up)
                items[0][0]["items"] = [[] for _ in items[0][0]["items"]]
                self.feats.add("list-first-child-list-of-empty-items")
        if any(len(b) > 1 and any(x["t"] != "list" for x in b[1:]) for b in items):
            tight = False
        self.feats.add("tight" if tight else "loose")
        return {"t": "list", "ordered": ordered, "start": r.choice([1, 1, 1, 0, 3, 9, 10, 99]) if ordered else None,
                "delim": r.choice([".", ".", ")"]) if ordered else None, "bullet": r.choice("-*+"),
                "tight": tight, "items": items}

    def blocks(self, depth: int, ctx: str, n: int) -> list[dict]:
        out: list[dict] = []
        for _ in range(n):
            b = self.block(depth, ctx)
            if out and out[-1]["t"] == "list" and b["t"] == "list":
                # two sibling lists must differ in marker or they are one list
                if b["ordered"] == out[-1]["ordered"]:
                    if b["ordered"]:
                        b["delim"] = ")" if out[-1]["delim"] == "." else "."
                        self.feats.add("adjacent-olists-delims")
                    else:
                        b["bullet"] = {"-": "*", "*": "+", "+": "-"}[out[-1]["bullet"]]
                self.feats.add("adjacent-lists")
            if out and out[-1]["t"] in ("list", "fndef") and b["t"] == "icode":
                b = self.para()  # an indented chunk after a list / footnote definition continues that block
            if out and out[-1]["t"] in ("list", "fndef") and b["t"] == "fence" and b.get("indent"):
                _unindent_fence(b)  # an indented fence after a list would belong to the last item
            if out and out[-1]["t"] == "icode" and b["t"] == "icode":
                # two indented chunks separated by a blank line are ONE code block
                b = {"t": "fence", "ch": "~", "n": 7, "info": "", "lines": b["lines"]}
            if out and out[-1]["t"] == "para" and b["t"] == "icode" and ctx != "top":
                b = self.para()
            if out and out[-1]["t"] in ("table", "heading", "lrd", "hr") and b["t"] == "para" and "task" not in b and self.r.random() < 0.3 \
                    and not b["segs"][0][0].endswith(("\\.", "\\)")) and not _is_tagword(b["segs"][0][0]):
                # the escape context of a paragraph must not depend on the block rendered before it
                b["segs"][0].insert(0, self.r.choice(["1\\.", "1999\\.", "7\\)"]))
                self.feats.add("escaped-marker-start-after-block")
            out.append(b)
        return out

    def tag_block(self) -> list[dict]:
        """tag line, enclosed prose/list/table, closing tag line (C06)."""
        r = self.r
        self.feats.add("tag-block")
        name = r.choice(["field", "section", "if"])
        style = r.choice(["jinja", "jinja", "html", "jcomment"])
        if style == "jinja":
            o, c = "{% " + name + r.choice(["", " a=1", " kind=\"x y\""]) + " %}", "{% /" + name + " %}"
        elif style == "html":
            o, c = f"<!-- {name} -->", f"<!-- /{name} -->"
        else:
            o, c = "{# " + name + " #}", "{# /" + name + " #}"
        inner_kind = r.choice(["para", "list", "table", "list", "para"])
        if inner_kind == "para":
            inner = self.para(2)
            if inner["segs"][0][0].endswith(("\\.", "\\)")) or inner["segs"][0][0][:1] == "\\":
                inner["segs"][0].pop(0)  # an escaped marker directly after a tag line is hostile-only
                if not inner["segs"][0]:
                    inner["segs"][0] = ["Word"]
        elif inner_kind == "list":
            inner = self.list_(2, "top")
            # next to a tag line: plain one-paragraph items only (no empty, rule-only, quote-only or list-first items)
            inner["items"] = [[b[0]] for b in inner["items"] if b and b[0]["t"] == "para"] or [[self.para(1)]]
            for it in inner["items"]:
                # single physical line per item: flowmark's blank-line rule looks at the line next to the tag
                it[0]["segs"] = [[w for seg in it[0]["segs"] for w in seg]]
                it[0]["hb"] = []
            inner["tight"] = True
            if inner["ordered"]:
                inner["start"] = 1
        else:
            inner = self.table()
            inner["outer"] = True
        return [{"t": "tagblock", "open": o, "close": c, "inner": inner, "glued": r.random() < 0.6}]


# ---------------------------------------------------------------------- serialisation
# Every physical line carries a kind: "pc" = paragraph continuation line (its indentation and
# container prefixes are free layout: extra indent, lazy continuation), "x" = anything else.
class Ser:
    def __init__(self, layout_seed: int, profile: str, wild: bool = True):
        self.L = random.Random(layout_seed)
        self.profile = profile
        self.wild = wild  # False: canonical single-space one-line-per-paragraph layout
        self.cdepth = 0   # container nesting depth while serialising

    def para_lines(self, b: dict) -> list[tuple[str, str]]:
        """Lay the words out on physical lines. Soft breaks only between two plain words (never
        next to a tag/comment, never before a word that could start a block)."""
        L = self.L
        lines: list[tuple[str, str]] = []
        segs = b["segs"]
        first = True
        for si, ws in enumerate(segs):
            cur = ws[0]
            if si == 0 and "task" in b:
                cur = f"[{b['task']}] " + cur
            for a, w in zip(ws, ws[1:]):
                can_break = (self.wild and not getattr(self, "nobreak", False) and not _is_tagword(a) and not _is_tagword(w)
                             and (not _could_start_block(w) or (w == "1999\\." and self.cdepth == 0))
                             and not a.endswith("\\") and w[:1].isalnum() and a[-1:] != ">")
                if can_break and L.random() < 0.22:
                    lines.append((cur + (" " if L.random() < 0.1 else ""), "x" if first else "pc"))
                    first = False
                    cur = w
                else:
                    cur += (" " if (not self.wild or L.random() < 0.9) else L.choice(["  ", "   ", " \t"])) + self.inner(w)
            if si < len(segs) - 1:
                cur += b["hb"][si] if b["hb"][si] == "\\" else "  "
            # the line after a hard break is not a free continuation line (keep it simple)
            lines.append((cur, "x" if first else ("pc" if si == 0 or True else "x")))
            first = False
        return lines

    def inner(self, w: str) -> str:
        """Layout freedom inside an atomic word: runs of spaces in code spans, link texts and template tags."""
        L = self.L
        if not self.wild or " " not in w or L.random() > 0.3:
            return w
        if w.startswith("`") and w.endswith("`") and not w.startswith("``"):
            return w.replace(" ", "  ", 1)
        if w.startswith("[") and "](" in w:
            text, rest = w.split("](", 1)
            return text.replace(" ", "   ", 1) + "](" + rest if "`" not in text else w
        if w.startswith(("{%", "{{", "{#")) and '"' not in w and "'" not in w:
            return w.replace(" ", "  ", 1)
        if w.startswith("[") and w.endswith("]") and "](" not in w and "`" not in w:
            return w.replace(" ", "  ", 1)  # shortcut / full / collapsed reference: label and text are matched modulo space runs
        return w

    def blocks(self, blocks: list[dict], tight: bool = False) -> list[tuple[str, str]]:
        out: list[tuple[str, str]] = []
        for i, b in enumerate(blocks):
            if i and blocks[i - 1]["t"] == "heading" and blocks[i - 1]["style"] == "atx" and self.wild and b["t"] != "icode" \
                    and self.L.random() < 0.15:
                pass  # no blank line is needed after an ATX heading
            elif i and not (tight and b["t"] == "list"):
                out.extend([("", "x")] * (1 if (not self.wild or self.L.random() < 0.85) else 2))
            out.extend(self.block(b))
        return out

    def prefix(self, lines, first: str, rest: str, blank: str, lazy_ok: bool = True):
        L = self.L
        out = []
        for j, (ln, kind) in enumerate(lines):
            if j == 0:
                out.append((first + ln, "x"))
            elif ln == "":
                out.append((blank, "x"))
            elif kind == "pc" and self.wild and lazy_ok and self.cdepth <= 1 and L.random() < 0.12:
                out.append((ln, "x"))  # lazy continuation: this container's prefix is omitted
            elif kind == "pc" and self.wild and L.random() < 0.15:
                out.append((rest + " " * L.randint(1, 3) + ln, "x"))
            else:
                out.append((rest + ln, "x"))  # layout freedom exists at the innermost container only
        return out

    def block(self, b: dict) -> list[tuple[str, str]]:
        L = self.L
        t = b["t"]
        X = lambda lines: [(ln, "x") for ln in lines]  # noqa: E731
        if t == "para":
            return self.para_lines(b)
        if t == "heading":
            # the number of spaces between two words of a heading is layout, like in a paragraph
            text = "".join((("" if i == 0 else (" " if (not self.wild or L.random() < 0.85) else L.choice(["  ", "   ", " \t"]))) + w)
                           for i, w in enumerate(b["words"]))
            if b["style"] == "atx":
                return X(["#" * b["level"] + " " + text + (" " + "#" * L.randint(1, 3) if b.get("closing") else "")])
            ws_ = b["words"]
            if self.wild and len(ws_) >= 3 and L.random() < 0.35:
                # a setext heading may span several lines
                k_ = L.randint(1, len(ws_) - 1)
                if not _could_start_block(ws_[k_]) and not _is_tagword(ws_[k_]) and not _is_tagword(ws_[k_ - 1]) and ws_[k_][:1].isalnum() \
                        and not ws_[k_ - 1].endswith("\\"):
                    return X([" ".join(ws_[:k_]), " ".join(ws_[k_:]), ("=" if b["level"] == 1 else "-") * 5])
            return X([text, ("=" if b["level"] == 1 else "-") * max(3, min(len(text), 12))])
        if t == "hr":
            return X([b["s"]])
        if t == "lrd":
            return X([f"[{b['label']}]: {b['dest']}" + (f" {b['title']}" if b["title"] else "")])
        if t == "fence":
            f = b["ch"] * b["n"]
            ind = " " * b.get("indent", 0)
            # the closing fence may be longer than the opening one
            return X([ind + f + b["info"]] + [(ind + ln) if ln else "" for ln in b["lines"]] + [ind + f + b["ch"] * b.get("close_extra", 0) + b.get("close_trail", "")])
        if t == "icode":
            return X(["    " + ln for ln in b["lines"]])
        if t == "table":
            def row(cells):
                s_ = " | ".join("".join((("" if i == 0 else (" " if (not self.wild or L.random() < 0.85) else L.choice(["  ", "   "]))) + w)
                                           for i, w in enumerate(c)) for c in cells)
                return ("| " + s_ + " |") if outer else s_
            n = len(b["aligns"])
            outer = b["outer"] or n == 1
            delim = ("|" + "|".join(b["aligns"]) + "|") if outer else " | ".join(b["aligns"])
            return X([row(b["rows"][0]), delim] + [row(r_) for r_ in b["rows"][1:]])
        if t == "quote":
            self.cdepth += 1
            inner = self.blocks(b["blocks"])
            self.cdepth -= 1
            head = []
            if "alert" in b:
                a = b["alert"]
                a = {"upper": a, "lower": a.lower(), "title": a.title()}[b["alert_case"]]
                head = [(f"> [!{a}]", "x")]
                return head + self.prefix([("", "x")] + inner, "", "> ", ">")[1:] if False else \
                    head + [(("> " + ln) if ln else ">", "x") for ln, k in inner]
            res = self.prefix(inner, "> ", "> ", ">")
            if b.get("trailing_blank"):
                res.append((">", "x"))  # a trailing empty quoted line (part of the tree, not a layout choice)
            return res
        if t == "fndef":
            self.cdepth += 1
            inner = self.blocks(b["blocks"])
            self.cdepth -= 1
            return self.prefix(inner, f"[^{b['label']}]: ", "    ", "", lazy_ok=False)
        if t == "list":
            lines: list[tuple[str, str]] = []
            for k, item in enumerate(b["items"]):
                marker = (f"{b['start'] + k}{b['delim']}" if b["ordered"] else b["bullet"]) + " "
                if k and not b["tight"]:
                    lines.append(("", "x"))
                if not item:
                    lines.append((marker.rstrip(), "x"))
                    continue
                if len(item) == 1 and item[0]["t"] == "hr" and item[0]["s"] == "item":
                    lines.append((marker + ("***" if marker.startswith("-") else "---"), "x"))
                    continue
                self.cdepth += 1
                inner = self.blocks(item, tight=b["tight"])
                self.cdepth -= 1
                lines.extend(self.prefix(inner, marker, " " * len(marker), ""))
            return lines
        if t == "tagblock":
            # no soft breaks inside a glued tag block: the line before the closing tag must itself be
            # the list/table line (flowmark's documented blank-line rule is about such lines)
            self.nobreak = True
            inner = [(ln, "x") for ln, _ in self.block(b["inner"])]
            self.nobreak = False
            if b["glued"]:
                return X([b["open"]]) + inner + X([b["close"]])
            return X([b["open"], ""]) + inner + X(["", b["close"]])
        raise ValueError(t)


def gen_doc(seed: int, profile: str = "core", layout_seed: int | None = None, wild_layout: bool = True,
            nblocks: tuple[int, int] = (1, 6), scale: int = 1) -> Doc:
    g = Gen(seed, profile, scale)
    n = g.r.randint(*nblocks)
    if scale > 1 and g.r.random() < 0.12:
        n = g.r.randint(nblocks[1], nblocks[1] * min(scale, 4))
    tree = g.blocks(0, "top", n)
    if tree[0]["t"] == "fence":
        # the document is stripped before parsing: a leading fence cannot be indented
        _unindent_fence(tree[0])
    if tree[0]["t"] == "icode":
        # flowmark documents dedent + strip of its input: a leading indented code block is not one
        tree[0] = {"t": "fence", "ch": "~", "n": 8, "info": "", "lines": tree[0]["lines"]}
    if tree[0]["t"] == "hr" and tree[0]["s"].startswith("---"):
        tree[0]["s"] = "***"  # a leading '---' line opens YAML frontmatter (C07), not a rule
    if profile == "tags":
        k = g.r.randint(1, 2)
        for _ in range(k):
            tree.insert(g.r.randint(0, len(tree)), g.tag_block()[0])
        # two sibling lists separated by a tag block are still siblings; leave as is
    ls = layout_seed if layout_seed is not None else seed ^ 0x5DEECE66D
    s = Ser(ls, profile, wild=wild_layout)
    lines = s.blocks(tree)
    text = "\n".join(ln for ln, _ in lines) + "\n"
    if scale > 1 and g.r.random() < 0.3:
        # YAML frontmatter in front of the document: every option must reach the body on this path too, and nothing may touch
        # the block itself (quotes, dot runs, Markdown syntax, a long line)
        g.feats.add("frontmatter")
        text = FRONTMATTER + text
    return Doc(text=text, feats=set(g.feats), tree=tree, seed=seed, layout_seed=ls, profile=profile)


if __name__ == "__main__":
    import sys

    d = gen_doc(int(sys.argv[1]), sys.argv[2] if len(sys.argv) > 2 else "core",
                int(sys.argv[3]) if len(sys.argv) > 3 and sys.argv[3] != "-" else None, scale=int(sys.argv[4]) if len(sys.argv) > 4 else 1)
    print(d.text)
    print(sorted(d.feats))
