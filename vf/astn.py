"""Oracle A: normalised document tree, read with the same Markdown reader flowmark uses
(flowmark_markdown().parse, i.e. marko + GFM + footnotes with flowmark's parser customisations).

Spelling that carries no meaning is deliberately not in the tree: bullet character, '.' vs ')',
fence character/length, emphasis delimiter, setext vs ATX, indented vs fenced-without-info code,
inline vs reference spelling of a link with equal destination and title, which escapes are kept.
"""
from __future__ import annotations

import re
import textwrap

from flowmark import flowmark_markdown

try:
    from marko.ext.pangu import PANGU_RE
except Exception:  # noqa: BLE001
    PANGU_RE = None

_WS = re.compile(r"\s+")


def norm_ws(s: str) -> str:
    return _WS.sub(" ", s)


def _pangu(s: str) -> str:
    return re.sub(PANGU_RE, " ", s) if PANGU_RE is not None else s


def inl(children) -> tuple:
    out: list = []

    def emit_text(t: str) -> None:
        if out and out[-1][0] == "T":
            out[-1] = ("T", out[-1][1] + t)
        else:
            out.append(("T", t))

    if isinstance(children, str):
        children_iter = []
        emit_text(children)
    else:
        children_iter = children
    for c in children_iter:
        t = c.get_type()
        if t == "RawText":
            emit_text(_pangu(c.children))
        elif t == "Literal":
            emit_text(c.children)
        elif t == "LineBreak":
            if c.soft:
                emit_text(" ")
            else:
                out.append(("BR",))
        elif t == "CodeSpan":
            out.append(("CODE", norm_ws(c.children).strip()))
        elif t == "Emphasis":
            out.append(("EM", inl(c.children)))
        elif t == "StrongEmphasis":
            out.append(("STRONG", inl(c.children)))
        elif t == "Strikethrough":
            out.append(("DEL", inl(c.children)))
        elif t == "Link":
            out.append(("LINK", c.dest, c.title or None, inl(c.children)))
        elif t == "Image":
            out.append(("IMG", c.dest, c.title or None, inl(c.children)))
        elif t in ("AutoLink", "Url"):
            # resolved target AND the text as written (the reader adds 'http://' to 'www.' links and 'mailto:' to addresses)
            written = "".join(ch.children for ch in (c.children if isinstance(c.children, list) else []) if isinstance(getattr(ch, "children", None), str))
            out.append(("AUTO", c.dest, written))
        elif t == "InlineHTML":
            out.append(("HTML", norm_ws(c.children)))
        elif t == "FootnoteRef":
            out.append(("FNREF", c.label))
        else:
            out.append((t, repr(getattr(c, "children", None))[:80]))
    res = []
    for x in out:
        if x[0] == "T":
            res.append(("T", norm_ws(x[1])))
        else:
            res.append(x)
    if res and res[0][0] == "T":
        res[0] = ("T", res[0][1].lstrip())
    if res and res[-1][0] == "T":
        res[-1] = ("T", res[-1][1].rstrip())
    # whitespace next to a hard break is not content
    for i, x in enumerate(res):
        if x[0] == "BR":
            if i > 0 and res[i - 1][0] == "T":
                res[i - 1] = ("T", res[i - 1][1].rstrip())
            if i + 1 < len(res) and res[i + 1][0] == "T":
                res[i + 1] = ("T", res[i + 1][1].lstrip())
    return tuple(x for x in res if x != ("T", ""))


def blk(e):
    t = e.get_type()
    if t == "BlankLine":
        return None
    if t == "Document":
        return ("DOC", blks(e.children))
    if t == "Paragraph":
        if hasattr(e, "checked"):
            return ("P", ("TASK", bool(e.checked)), inl(e.children))
        return ("P", inl(e.children))
    if t in ("Heading", "SetextHeading"):
        return ("H", e.level, inl(e.children))
    if t == "Quote":
        return ("QUOTE", blks(e.children))
    if t == "Alert":
        return ("ALERT", str(e.alert_type).upper(), blks(e.children))
    if t == "List":
        return ("LIST", bool(e.ordered), e.start if e.ordered else None, bool(e.tight), blks(e.children))
    if t == "ListItem":
        return ("ITEM", blks(e.children))
    if t in ("FencedCode", "CustomFencedCode", "CodeBlock"):
        lang = getattr(e, "lang", "") or ""
        extra = getattr(e, "extra", "") or ""
        body = e.children[0].children
        if body.endswith("\n"):
            body = body[:-1]
        # (number of lines: an empty block and a block holding one empty line have the same body text)
        return ("CODEBLOCK", (lang + " " + extra).strip(), body, 0 if e.children[0].children == "" else body.count("\n") + 1)
    if t == "ThematicBreak":
        return ("HR",)
    if t == "LinkRefDef":
        return ("LRD", norm_ws(str(e.label)).strip().lower(), e.dest, _lrd_title(e.title))
    if t == "FootnoteDef":
        return ("FNDEF", e.label, blks(e.children))
    if t == "Table":
        aligns = tuple(c.align for c in e.head.children)
        return ("TABLE", aligns, tuple(tuple(inl(c.children) for c in r.children) for r in e.children))
    if t == "HTMLBlock":
        return ("HTMLBLOCK", e.body)
    return (t,)


def _lrd_title(raw):
    """The TEXT of a definition's title. marko returns it as written, with its delimiters ("..." / '...' / (...)) and
    escapes; which delimiter the author used is spelling, not meaning."""
    if not raw:
        return None
    if len(raw) >= 2 and (raw[0], raw[-1]) in (('"', '"'), ("'", "'"), ("(", ")")):
        raw = raw[1:-1]
    return re.sub(r"\\([!-/:-@\[-`{-~])", r"\1", raw)


def blks(ch) -> tuple:
    return tuple(x for x in (blk(c) for c in ch) if x is not None)


def tree(md: str):
    if md.startswith("---"):
        # a frontmatter block is not Markdown (C07 judges it); documents that BEGIN with a thematic break are not generated
        fm_, body = split_frontmatter_ref(md)
        if fm_:
            md = body
    return blk(flowmark_markdown().parse(md))


def first_diff(a, b, path=()):
    if type(a) is not type(b) or not isinstance(a, tuple):
        return None if a == b else (path, a, b)
    if len(a) != len(b):
        # find first differing child to give a useful witness
        for i, (x, y) in enumerate(zip(a, b)):
            if x != y:
                return (path + (i, "len"), x, y)
        return (path + ("len",), len(a), len(b))
    for i, (x, y) in enumerate(zip(a, b)):
        d = first_diff(x, y, path + (i,))
        if d:
            return d
    return None


def node_kinds(a, acc=None):
    acc = acc if acc is not None else set()
    if isinstance(a, tuple) and a and isinstance(a[0], str):
        acc.add(a[0])
        for x in a[1:]:
            node_kinds(x, acc)
    elif isinstance(a, tuple):
        for x in a:
            node_kinds(x, acc)
    return acc


# ---------------------------------------------------------------------------------------------
# The reference reading of the *input*, the way flowmark documents it: frontmatter removed,
# dedent + strip, and a blank line assumed between an unindented tag-only line and an adjacent
# list/table line (documented purpose of preprocess_tag_block_spacing; re-implemented here).
_TAG_OPEN = ("{%", "{#", "{{", "<!--")
_TAG_CLOSE = ("%}", "#}", "}}", "-->")
_LISTISH = re.compile(r"^\s*(?:[-*+]|\d{1,9}[.)])[ \t]")


def _tag_only(line: str) -> bool:
    if not line or line[0].isspace():
        return False
    s = line.strip()
    return s.startswith(_TAG_OPEN) and s.endswith(_TAG_CLOSE)


def _blockish(line: str) -> bool:
    return line.lstrip().startswith("|") or bool(_LISTISH.match(line))


def split_frontmatter_ref(text: str) -> tuple[str, str]:
    """Independent re-implementation: lines end at LF only (CRLF tolerated)."""
    lines = text.split("\n")
    i = 0
    while i < len(lines) and lines[i].strip(" \t\r") == "":
        i += 1
    if i >= len(lines) or lines[i].strip(" \t\r") != "---":
        return "", text
    for j in range(i + 1, len(lines)):
        if lines[j].strip(" \t\r") == "---":
            return "\n".join(lines[i:j + 1]) + "\n", "\n".join(lines[j + 1:])
    return text, ""


def reference_input(text: str) -> str:
    fm, body = split_frontmatter_ref(text)
    if fm:
        text = body
    text = textwrap.dedent(text).strip() + "\n"
    lines = text.split("\n")
    if not any(_tag_only(ln) for ln in lines):
        return text
    out: list[str] = []
    fence = None  # (char, length) of the open fenced code block, if any: its lines are literal
    for i, ln in enumerate(lines):
        in_code = fence is not None
        m = re.match(r"^ {0,3}(`{3,}|~{3,})(.*)$", ln)
        if fence is None:
            if m and not (m.group(1)[0] == "`" and "`" in m.group(2)):
                fence = (m.group(1)[0], len(m.group(1)))
        elif m and m.group(1)[0] == fence[0] and len(m.group(1)) >= fence[1] and not m.group(2).strip():
            fence = None
        if i > 0 and not in_code:
            prev = lines[i - 1]
            if prev.strip() and ((_tag_only(prev) and _blockish(ln)) or (_blockish(prev) and _tag_only(ln))):
                out.append("")
        out.append(ln)
    return "\n".join(out)
