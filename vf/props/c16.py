"""C16 — configuration precedence: explicit flag over config file over default.

Deciding observation = public behaviour of flowmark.cli.main(argv) run in-process with the working directory inside
a generated config tree:
  format    a probe document on which every formatting setting is visible in the output; the bytes must equal
            reformat_text(probe, **effective) where `effective` comes from a 15-line reference function
            (flag if passed - even with its default value - else --auto preset for the four switches, else nearest
            config file, else built-in default)
  discover  --list-files on a probe tree on which every discovery setting is visible; the listing must equal
            FileResolver(FileResolverConfig(**effective)).resolve(...)
  search    which config file is used: .flowmark.toml before flowmark.toml before pyproject.toml (only with a
            [tool.flowmark] table), nearest directory first, searching upward
  keys      every key a config file accepts without a warning changes behaviour for some value; unknown keys warn
"""
from __future__ import annotations

import contextlib
import io
import os
import re
import shutil
import sys
import tempfile

from vf import fm
from vf.core import Collector, Prop, shard_rng

PROBE = ("# **Bold Heading**\n\nThis is sentence one of the probe document, it is long enough to wrap at forty. This is \"sentence two\" and it's "
         "followed by dots... like these.\n\n- tight one\n- tight two\n\n1. loose one\n\n2. loose two\n")
DEFAULTS = {"width": 88, "semantic": False, "cleanups": False, "smartquotes": False, "ellipses": False, "list_spacing": "preserve",
            "include": ["*.md"], "extend_include": [], "exclude": None, "extend_exclude": [], "respect_gitignore": True, "force_exclude": False,
            "files_max_size": 1048576}
FORMAT = ["width", "semantic", "cleanups", "smartquotes", "ellipses", "list_spacing"]
DISCOVER = ["include", "extend_include", "exclude", "extend_exclude", "respect_gitignore", "force_exclude", "files_max_size"]
AUTO_LOCKED = {"semantic", "cleanups", "smartquotes", "ellipses"}
ALT = {"width": 40, "semantic": True, "cleanups": True, "smartquotes": True, "ellipses": True, "list_spacing": "loose",
       "include": ["*.mdx"], "extend_include": ["*.mdx"], "exclude": ["drafts/"], "extend_exclude": ["drafts/"], "respect_gitignore": False,
       "force_exclude": True, "files_max_size": 50}
ALT2 = {"width": 60, "semantic": True, "cleanups": True, "smartquotes": True, "ellipses": True, "list_spacing": "tight",
        "include": ["*.txt"], "extend_include": ["*.txt"], "exclude": ["other/"], "extend_exclude": ["other/"], "respect_gitignore": False,
        "force_exclude": True, "files_max_size": 0}
KEBAB = {"list_spacing": "list-spacing", "extend_include": "extend-include", "extend_exclude": "extend-exclude",
         "files_max_size": "files-max-size", "respect_gitignore": "respect-gitignore", "force_exclude": "force-exclude"}


def respell(argv, how):
    """Other spellings argparse accepts for the same flags: --opt=value, an unambiguous prefix of the long option, -wN."""
    if not argv or how == "canonical":
        return argv
    out = []
    i = 0
    while i < len(argv):
        a = argv[i]
        val = argv[i + 1] if i + 1 < len(argv) and not argv[i + 1].startswith("-") else None
        if a == "-w":
            a = "--width"
        if how == "glued" and argv[i] == "-w" and val is not None:
            out.append("-w" + val)
            i += 2
            continue
        if how == "bundle" and argv[i] == "-w" and val is not None:
            out.append("-iw" + val)  # a bundle of short options that starts with an option the precedence logic does not track
            i += 2
            continue
        if how == "bundle" and argv[i] in ("--semantic", "--cleanups"):
            out.append({"--semantic": "-is", "--cleanups": "-ic"}[argv[i]])
            i += 1
            continue
        if how == "prefix" and a.startswith("--"):
            a = PREFIX.get(a, a)
        if how == "equals" and val is not None:
            out.append(a + "=" + val)
            i += 2
            continue
        out.append(a)
        if val is not None:
            out.append(val)
            i += 1
        i += 1
    return out


PREFIX = {"--width": "--wid", "--semantic": "--sem", "--cleanups": "--clean", "--smartquotes": "--smartq", "--ellipses": "--ell",
          "--list-spacing": "--list-s", "--files-max-size": "--files-max", "--extend-exclude": "--extend-e", "--extend-include": "--extend-i",
          "--no-respect-gitignore": "--no-r", "--force-exclude": "--force", "--exclude": "--excl"}


def flag_argv(name, value):
    """CLI spelling of giving `name` explicitly with `value` (None if that value cannot be spelled)."""
    if name == "width":
        return ["-w", str(value)]
    if name in ("semantic", "cleanups", "smartquotes", "ellipses", "force_exclude"):
        return ["--" + name.replace("_", "-")] if value else None
    if name == "list_spacing":
        return ["--list-spacing", value]
    if name == "respect_gitignore":
        return ["--no-respect-gitignore"] if value is False else None
    if name in ("extend_include", "exclude", "extend_exclude"):
        out = []
        for v in value or []:
            out += ["--" + name.replace("_", "-"), v]
        return out or None
    if name == "files_max_size":
        return ["--files-max-size", str(value)]
    return None


def toml_value(v):
    if isinstance(v, bool):
        return "true" if v else "false"
    if isinstance(v, int):
        return str(v)
    if isinstance(v, str):
        return '"' + v + '"'
    return "[" + ", ".join('"' + x + '"' for x in v) + "]"


def write_config(path, kind, values: dict, sectioned: bool, kebab: bool):
    """kind: '.flowmark.toml' | 'flowmark.toml' | 'pyproject.toml' | 'pyproject-nosection'"""
    def key(k):
        return KEBAB.get(k, k) if kebab else k
    lines = []
    if kind == "pyproject-nosection":
        body = "[tool.other]\nx = 1\n"
        fname = "pyproject.toml"
    elif kind.startswith("pyproject:"):
        # the same table written in other valid TOML: what counts is that the parsed file HAS a tool.flowmark table
        kv = [f"{key(k)} = {toml_value(v)}" for k, v in values.items()]
        sp = kind.split(":", 1)[1]
        body = {"inline": "[tool]\nflowmark = { " + ", ".join(kv) + " }\n",
                "dotted-under-tool": "[tool]\n" + "".join("flowmark." + x + "\n" for x in kv),
                "top-dotted": "".join("tool.flowmark." + x + "\n" for x in kv) + "\n[tool.other]\nx = 1\n",
                "spaces": "[ tool.flowmark ]\n" + "\n".join(kv) + "\n",
                "spaces-dot": "[tool . flowmark]\n" + "\n".join(kv) + "\n",
                "quoted": "[tool.\"flowmark\"]\n" + "\n".join(kv) + "\n",
                "after-other-tools": "[tool.black]\nline-length = 100\n\n[tool.ruff]\nline-length = 100\n\n[tool.flowmark]   # formatter\n" + "\n".join(kv) + "\n"}[sp]
        fname = "pyproject.toml"
    elif kind == "pyproject-empty-table":
        # the table exists but sets nothing: still THE config file of this directory (the search stops here)
        body = "[tool.other]\nx = 1\n\n[tool.flowmark]\n# width = 100\n"
        fname = "pyproject.toml"
    else:
        fname = kind
        prefix = "tool.flowmark." if kind == "pyproject.toml" else ""
        if sectioned:
            fmt = {k: v for k, v in values.items() if k in FORMAT}
            dis = {k: v for k, v in values.items() if k not in FORMAT}
            if kind == "pyproject.toml" and not fmt and not dis:
                lines.append("[tool.flowmark]")
            if fmt or kind != "pyproject.toml":
                lines.append(f"[{prefix}formatting]")
                lines += [f"{key(k)} = {toml_value(v)}" for k, v in fmt.items()]
            if dis:
                lines.append(f"[{prefix}file-discovery]")
                lines += [f"{key(k)} = {toml_value(v)}" for k, v in dis.items()]
        else:
            if kind == "pyproject.toml":
                lines.append("[tool.flowmark]")
            lines += [f"{key(k)} = {toml_value(v)}" for k, v in values.items()]
        body = "\n".join(lines) + "\n"
    with open(os.path.join(path, fname), "w") as f:
        f.write(body)


def effective(cli: dict, auto: bool, config: dict | None) -> dict:
    """Reference: flag > (--auto preset for the four switches) > nearest config > default."""
    eff = {}
    for s in FORMAT + DISCOVER:
        if s in cli:
            eff[s] = cli[s]
        elif auto and s in AUTO_LOCKED:
            eff[s] = True
        elif config is not None and s in config:
            eff[s] = config[s]
        else:
            eff[s] = DEFAULTS[s]
    if auto:
        for s in AUTO_LOCKED:
            eff[s] = True
    return eff


class C16(Prop):
    id = "C16"
    once_kinds = ("search", "keys")
    rule = ("cases: every one of the 13 settings (include is config-only) x {flag passed with a non-default value, passed with its default value, not passed; spelled canonically, as --opt=value, as an unambiguous prefix, as -wN, inside a bundle of short options} x "
            "{config sets it, does not} x {--auto, not} with a random config kind (.flowmark.toml / flowmark.toml / pyproject.toml), "
            "spelling (flat / sectioned, kebab / snake) and location (cwd / parent / grandparent); all ordered combinations of config "
            "files in cwd and parent for the search order; every accepted key for 'has an effect'. Non-trivial: the effective value "
            "differs from the default or a config file is present; distinct by case description.")
    assumptions = ["the effective value is observed through behaviour only (output bytes of a probe document / listing of a probe tree)",
                   "list-spacing and width under --auto are expected from the config file (the statement fixes only the four switches)"]
    deciding = {"format": {"quick": 100, "thorough": 400}, "discover": {"quick": 100, "thorough": 400}, "search": 30, "keys": 13}
    soft_timeout = 600.0

    def cases(self, tier, seed, shard, nshards):
        r = shard_rng(seed, self.id, shard)
        i = 0
        reps = 1 if tier == "quick" else 4
        for rep in range(reps):
            for s in FORMAT + DISCOVER:
                for flag in ("alt", "default", "none", "zero"):
                    if flag == "zero" and s not in ("width", "files_max_size"):
                        continue  # an explicit value that is falsy: -w 0, --files-max-size 0
                    for cfg in ("alt", "default", False):
                        for auto in (False, True):
                            i += 1
                            if i % nshards != shard:
                                continue
                            yield {"kind": "setting", "setting": s, "flag": flag, "config": cfg, "auto": auto,
                                   "cfg_kind": r.choice([".flowmark.toml", "flowmark.toml", "pyproject.toml"]), "sectioned": r.random() < 0.5,
                                   "kebab": r.random() < 0.5, "where": r.choice(["cwd", "parent", "grandparent"]),
                                   "extra_cfg": r.random() < 0.5, "spelling": r.choice(["canonical", "canonical", "equals", "prefix", "glued", "bundle"]), "via_sys_argv": r.random() < 0.35}
        kinds = [None, ".flowmark.toml", "flowmark.toml", "pyproject.toml", "pyproject-nosection", "pyproject-empty-table"]
        j = 0
        for a in kinds:
            for b in kinds:
                for c in kinds[:3]:
                    j += 1
                    if j % nshards == shard:
                        yield {"kind": "search", "cwd": [x for x in (a, c) if x and x != a or x == a and x], "parent": [b] if b else []}
        spell = ["inline", "dotted-under-tool", "top-dotted", "spaces", "spaces-dot", "quoted", "after-other-tools"]
        for j, sp in enumerate(spell):
            if j % nshards == shard:
                yield {"kind": "search", "cwd": ["pyproject:" + sp], "parent": [".flowmark.toml"]}
            if (j + 7) % nshards == shard:
                yield {"kind": "search", "cwd": [], "parent": ["pyproject:" + sp]}
        # how far up the search goes: the nearest config file 1 .. 40 directory levels above the working directory
        for j, depth in enumerate([1, 2, 5, 9, 12, 13, 17, 25, 40]):
            if (j + 3) % nshards == shard:
                yield {"kind": "search", "cwd": [], "parent": [r.choice([".flowmark.toml", "flowmark.toml", "pyproject.toml"])], "levels_below_parent": depth}
        if shard == 0:
            yield {"kind": "keys"}

    def setup_worker(self, col, tier):
        from flowmark import cli
        from flowmark.file_resolver import FileResolver, FileResolverConfig
        self.cli, self.FR, self.FRC = cli, FileResolver, FileResolverConfig
        self.tmp = tempfile.mkdtemp(prefix="vf-c16-")
        # the probe must make every formatting setting visible
        base = fm.fmt(PROBE, **{k: DEFAULTS[k] for k in FORMAT})
        for k in FORMAT:
            if fm.fmt(PROBE, **dict({x: DEFAULTS[x] for x in FORMAT}, **{k: ALT[k]})) == base:
                col.inconcl(f"probe document does not reveal setting {k}")

    def teardown_worker(self, col):
        shutil.rmtree(self.tmp, ignore_errors=True)

    # ------------------------------------------------------------------ helpers
    def tree(self):
        root = tempfile.mkdtemp(prefix="t-", dir=self.tmp)
        work = os.path.join(root, "gp", "p", "cwd")
        os.makedirs(work)
        files = {"probe.md": PROBE, "a.md": "a\n", "x.mdx": "x\n", "t.txt": "t\n", "node_modules/n.md": "n\n", "drafts/d.md": "d\n",
                 "other/o.md": "o\n", "ignored.md": "i\n", "big.md": "b" * 200 + "\n", ".gitignore": "ignored.md\n", "sub/deep/s.md": "s\n"}
        for name, data in files.items():
            p = os.path.join(work, name)
            os.makedirs(os.path.dirname(p), exist_ok=True)
            with open(p, "w") as f:
                f.write(data)
        # stop the upward search at the scratch root: a config there that sets nothing
        with open(os.path.join(root, ".flowmark.toml"), "w") as f:
            f.write("# vf boundary\n")
        return root, work

    via_sys_argv = False  # True: the console-script route, main() without an argument list (arguments in sys.argv)

    def main(self, argv, cwd):
        out, err = io.StringIO(), io.StringIO()
        old = os.getcwd()
        old_argv = sys.argv
        os.chdir(cwd)
        try:
            with contextlib.redirect_stdout(out), contextlib.redirect_stderr(err):
                try:
                    if self.via_sys_argv:
                        sys.argv = ["flowmark"] + list(argv)
                        rc = self.cli.main()
                    else:
                        rc = self.cli.main(argv)
                except SystemExit as e:
                    rc = e.code if isinstance(e.code, int) else 1
        except Exception as e:  # noqa: BLE001
            rc = f"raised {type(e).__name__}: {e}"
        finally:
            os.chdir(old)
            sys.argv = old_argv
        return rc, out.getvalue(), err.getvalue()

    def observe(self, work, flags, auto, eff, col, case, monitor_prefix=""):
        """Run the CLI and compare behaviour with the reference effective settings."""
        ok = True
        # formatting
        col.case()
        col.mon("format")
        want = fm.fmt(PROBE, **{k: eff[k] for k in FORMAT})
        inplace_bundle = any(re.match(r"-i[a-z]", f) for f in flags)
        # the effective size limit also governs a file named on the command line (fixed record 8eeee56): a probe larger
        # than the limit is left alone (in place) / yields no output (stdout)
        limit = eff.get("files_max_size", 0)
        skipped = bool(limit) and len(PROBE.encode()) > limit
        if skipped:
            want = PROBE if (auto or inplace_bundle) else ""
            col.count("probe_over_effective_size_limit")
        if auto or inplace_bundle:
            shutil.copy(os.path.join(work, "probe.md"), os.path.join(work, "probe-auto.md"))
            rc, out, err = self.main((["--auto"] if auto else []) + flags + ["probe-auto.md"], work)
            with open(os.path.join(work, "probe-auto.md")) as f:
                got = f.read()
            os.remove(os.path.join(work, "probe-auto.md"))
            if os.path.exists(os.path.join(work, "probe-auto.md.orig")):
                os.remove(os.path.join(work, "probe-auto.md.orig"))
        else:
            rc, out, err = self.main(flags + ["probe.md"], work)
            got = out
        if rc != 0 or got != want:
            wrong = ["files_max_size"] if skipped else [k for k in FORMAT if fm.fmt(PROBE, **dict({x: eff[x] for x in FORMAT}, **{k: DEFAULTS[k] if eff[k] != DEFAULTS[k] else ALT[k]})) == got]
            col.violation("format", f"C16/format/effective-settings-wrong/{'+'.join(wrong) or 'unknown'}", case,
                          {"argv": (["--auto"] if auto else []) + flags, "expected_effective": {k: eff[k] for k in FORMAT}, "rc": rc,
                           "stderr": err[-200:], "settings_that_explain_output_if_flipped": wrong})
            ok = False
        # discovery (no --auto: --list-files never formats; --auto is still passed to exercise the merge)
        col.case()
        col.mon("discover")
        args = [".", "node_modules/n.md"]
        rc, out, err = self.main((["--auto"] if auto else []) + flags + ["--list-files"] + args, work)
        cfg = self.FRC(**{k: eff[k] for k in DISCOVER})
        old = os.getcwd()
        os.chdir(work)
        try:
            wantl = [str(p) for p in self.FR(cfg).resolve(args)]
        finally:
            os.chdir(old)
        gotl = [ln for ln in out.split("\n") if ln]
        if rc != 0 or gotl != wantl:
            col.violation("discover", "C16/discover/effective-settings-wrong", case,
                          {"argv": flags, "expected_effective": {k: eff[k] for k in DISCOVER}, "rc": rc, "stderr": err[-200:],
                           "missing": sorted(set(wantl) - set(gotl))[:5], "extra": sorted(set(gotl) - set(wantl))[:5]})
            ok = False
        return ok

    def check(self, case, col: Collector):
        getattr(self, "_check_" + case["kind"])(case, col)

    def _check_setting(self, case, col):
        s = case["setting"]
        root, work = self.tree()
        try:
            cli_vals = {}
            flags = []
            if case["flag"] != "none":
                v = ALT2[s] if case["flag"] == "alt" else (0 if case["flag"] == "zero" else DEFAULTS[s])
                a = flag_argv(s, v)
                if a is None:
                    col.count("flag_value_not_spellable_on_cli")
                    return
                flags += respell(a, case.get("spelling", "canonical"))
                col.hist("flag_spelling", case.get("spelling", "canonical"))
                cli_vals[s] = v
            config = None
            if case["config"] or case["extra_cfg"]:
                config = {}
                if case["config"]:
                    # "default": the config file spells out the built-in default value (it must still lose to a flag)
                    config[s] = ALT[s] if case["config"] in (True, "alt") else DEFAULTS[s]
                    if config[s] is None:
                        del config[s]
                if case["extra_cfg"]:
                    other = [k for k in FORMAT + DISCOVER if k != s]
                    for k in (other[hash(s) % len(other)], other[(hash(s) + 5) % len(other)]):
                        config[k] = ALT[k]
                where = {"cwd": work, "parent": os.path.dirname(work), "grandparent": os.path.dirname(os.path.dirname(work))}[case["where"]]
                write_config(where, case["cfg_kind"], config, case["sectioned"], case["kebab"])
            eff = effective(cli_vals, case["auto"], config)
            self.via_sys_argv = bool(case.get("via_sys_argv"))
            col.hist("entry", "main() with sys.argv" if self.via_sys_argv else "main(argv)")
            col.distinct(s, case["flag"], case["config"], case["auto"], case["cfg_kind"], case["where"], case["sectioned"], case["kebab"])
            col.hist("config_kind", case["cfg_kind"] if config is not None else "none")
            col.hist("setting", s)
            try:
                self.observe(work, flags, case["auto"], eff, col, case)
            finally:
                self.via_sys_argv = False
            if hash((s, case["flag"])) % 23 == 0:
                col.sample({"case": case, "flags": flags, "config": config, "expected_effective": eff})
        finally:
            shutil.rmtree(root, ignore_errors=True)

    def _check_search(self, case, col):
        root, work = self.tree()
        try:
            parent = os.path.dirname(work)
            widths = {}
            w = 30
            order = [".flowmark.toml", "flowmark.toml", "pyproject.toml", "pyproject-empty-table"] + [k for k in case["cwd"] + case["parent"] if k.startswith("pyproject:")]
            run_in = work
            if case.get("levels_below_parent"):
                # the working directory lies that many levels below the directory with the config file
                run_in = os.path.join(parent, *[f"l{n}" for n in range(case["levels_below_parent"])])
                os.makedirs(run_in)
                shutil.copy(os.path.join(work, "probe.md"), os.path.join(run_in, "probe.md"))
            for where, kinds in ((work, case["cwd"]), (parent, case["parent"])):
                seen_names = set()
                for k in kinds:
                    fname = "pyproject.toml" if k.startswith("pyproject") else k
                    if fname in seen_names:
                        continue  # one pyproject.toml per directory
                    seen_names.add(fname)
                    w += 7
                    write_config(where, k, {"width": w}, False, False)
                    # a file that sets nothing yields the built-in default width
                    widths[(where, k)] = w if k != "pyproject-empty-table" else DEFAULTS["width"]
            expect = None
            for where in (work, parent):
                for k in order:
                    if (where, k) in widths:
                        expect = widths[(where, k)]
                        break
                if expect is not None:
                    break
            eff = effective({}, False, {"width": expect} if expect is not None else None)
            col.case()
            col.mon("search")
            col.distinct("search", tuple(case["cwd"]), tuple(case["parent"]), case.get("levels_below_parent"))
            rc, out, err = self.main(["probe.md"], run_in)
            if rc != 0 or out != fm.fmt(PROBE, **{k: eff[k] for k in FORMAT}):
                seen = [wv for wv in widths.values() if out == fm.fmt(PROBE, **dict({k: DEFAULTS[k] for k in FORMAT}, width=wv))]
                col.violation("search", "C16/search/wrong-config-file-used", case,
                              {"files": {os.path.relpath(k[0], root) + "/" + k[1]: v for k, v in widths.items()}, "expected_width": eff["width"],
                               "width_seen": seen[:1] or ("default" if out == fm.fmt(PROBE, **{k: DEFAULTS[k] for k in FORMAT}) else "?")})
        finally:
            shutil.rmtree(root, ignore_errors=True)

    def _check_keys(self, case, col):
        keys = {"width": 40, "semantic": True, "cleanups": True, "smartquotes": True, "ellipses": True, "list-spacing": "loose",
                "include": ["*.mdx"], "extend-include": ["*.mdx"], "exclude": ["drafts/"], "extend-exclude": ["drafts/"],
                "files-max-size": 50, "respect-gitignore": False, "force-exclude": True, "no-such-key": 1, "widht": 3}
        for key, val in keys.items():
            root, work = self.tree()
            try:
                with open(os.path.join(work, ".flowmark.toml"), "w") as f:
                    f.write(f"{key} = {toml_value(val)}\n")
                rc1, out1, err1 = self.main(["probe.md"], work)
                rc2, out2, err2 = self.main(["--list-files", ".", "node_modules/n.md"], work)
                os.remove(os.path.join(work, ".flowmark.toml"))
                rc3, out3, err3 = self.main(["probe.md"], work)
                rc4, out4, err4 = self.main(["--list-files", ".", "node_modules/n.md"], work)
                col.case()
                col.mon("keys")
                col.distinct("key", key)
                warned = "unrecognized config key" in (err1 + err2)
                effect = (out1, out2) != (out3, out4)
                if not warned and not effect:
                    col.violation("keys", f"C16/keys/accepted-without-warning-but-no-effect/{key}", dict(case, key=key), {"value": val})
                if key in ("no-such-key", "widht") and not warned:
                    col.violation("keys", "C16/keys/unknown-key-not-warned", dict(case, key=key), {"stderr": (err1 + err2)[-200:]})
            finally:
                shutil.rmtree(root, ignore_errors=True)


PROP = C16()
