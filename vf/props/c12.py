"""C12 — formatting always terminates with well-formed output.

Monitors:
  soup     arbitrary Unicode / punctuation soup (unbalanced delimiters, control characters, CR/LF mixes, tabs,
           container markers, footnote/tag/comment openers) x arbitrary option values: reformat_text returns a
           str, raises nothing, Markdown mode ends with a newline, no NUL / placeholder text that was not in the
           input; every case runs under a soft alarm (pure-Python loops) and a hard watchdog (C-level stalls)
  codews   generated documents with code blocks at every nesting: a blank line inside an emitted code block
           carries no trailing spaces
  growth   pumped families at n, 2n, 4n, ...: the number of Python function calls made inside flowmark + marko
           (sys.monitoring PY_START; deterministic) must not grow faster than ~n^2.3 and CPU time stays bounded
"""
from __future__ import annotations

import math
import re
import sys
import time

from vf import fm
from vf.core import Collector, Prop, shard_rng
from vf.docbase import rand_opts
from vf.gen_doc import gen_doc

ATOMS = ["a", "b", "Z", " ", "  ", "\n", "\n\n", "\t", "*", "**", "_", "__", "`", "``", "```", "~", "~~", "~~~", "[", "]", "(", ")",
         "<", ">", "!", "#", "-", "+", "1.", "|", "\\", "{%", "%}", "{{", "}}", "{#", "#}", "<!--", "-->", '"', "'", "...",
         "=", "---", "===", "&amp;", "&", "<a>", "</a>", "<br/>", "http://x.y", "www.x.y", "\r\n", "\r", "\x00", "\x0b", "\x0c", " ",
         " ", "é", "中", "😀", ":", "[^1]", "[^1]:", "[x]", "[ ]", "> ", "    ", "- ", "1) ", "[!NOTE]", "​", "$",
         "]:", "](", "](<", "<!", "<?", "{% /", "%}{%", ".", "!", "?", "\\\n", "  \n", "\\`", "\\*", "0", "9", "10.", "‮", "﻿",
         "\x1b[0m", "\udcff".encode("utf-8", "surrogatepass").decode("utf-8", "replace")]
FAMILIES = {
    "stars": lambda n: "*" * n, "em-a": lambda n: "_a_ " * n, "backticks": lambda n: "`" * n, "open-brackets": lambda n: "[" * n,
    "bracket-paren": lambda n: "](" * n, "open-comments": lambda n: "<!-- " * n, "open-tags": lambda n: "{% " * n,
    "open-vars": lambda n: "{{ " * n, "pipes": lambda n: "|" * n, "backslashes": lambda n: "\\" * n,
    "quote-nest": lambda n: "> " * min(n // 16, 16) + "x " * n, "list-nest": lambda n: "".join("  " * min(i, 12) + "- x\n" for i in range(n)),
    "lines": lambda n: "a\n" * n, "long-word": lambda n: "a" * n, "footnote-refs": lambda n: "[^1] " * n + "\n\n[^1]: x",
    "words": lambda n: "word " * n, "links": lambda n: "[a](b) " * n, "code-spans": lambda n: "`a` " * n, "lt": lambda n: "a<b " * n,
    "tag-pairs": lambda n: "{% f %}{% /f %} " * n, "quotes": lambda n: "\"a\" 'b' " * n, "dots": lambda n: "a... " * n,
    "paragraphs": lambda n: "para text here.\n\n" * n, "table-rows": lambda n: "| a | b |\n|---|---|\n" + "| c | d |\n" * n,
    "unclosed-lt": lambda n: "i<n " + "word " * n,
    # ... and one that is closed far behind, after an apostrophe (a tag pattern that pairs quotes must not try every split)
    "lt-apostrophe-gt": lambda n: "i<n " + "word " * n + "it's so, and y>0\n", "lt-quote-gt": lambda n: "x <a href=\"u " + "word " * n + "> y\n",
    "backtick-run-in-text": lambda n: "a " + "`" * n + " b\n",
    "ref-links": lambda n: "".join(f"See [text {i}][r{i}] here.\n\n" for i in range(n // 4)) + "".join(f"[r{i}]: http://x.org/{i}\n" for i in range(n // 4)),
    "heading-code-spaces": lambda n: "# a `x" + " " * n + "y` b\n",
    # one tag-free paragraph whose lines LOOK like block content (rows without a delimiter row; numbers that cannot interrupt a
    # paragraph; '#x' without a space)
    "pipe-lines": lambda n: "| a\n" * n, "numbered-lines": lambda n: "text\n" + "".join(f"{i + 2}. x\n" for i in range(n)),
    "hash-lines": lambda n: "text\n" + "#x y\n" * n, "sentences": lambda n: "Some words here. " * n,
    # long runs of one character / of white space in every kind of block
    "space-run": lambda n: "a" + " " * n + "b\n", "tab-run": lambda n: "a" + "\t" * n + "b\n", "nbsp-run": lambda n: "a" + "\u00a0" * n + "b\n",
    "code-span-spaces": lambda n: "a `x" + " " * n + "y` b\n", "blank-lines": lambda n: "a" + "\n" * n + "b\n",
    "trailing-spaces": lambda n: "a" + " " * n + "\nb\n", "space-lines": lambda n: "a\n" + "   \n" * n + "b\n",
    "item-spaces": lambda n: "- a" + " " * n + "b\n", "table-cell-spaces": lambda n: "| a" + " " * n + "b |\n|---|\n| c |\n",
    "heading-spaces": lambda n: "# a" + " " * n + "b\n", "heading-hashes": lambda n: "# a " + "#" * n + " b\n",
    "heading-hash-words": lambda n: "# a" + " #" * n + " b\n", "setext-lines": lambda n: "a\n" * n + "===\n",
    "dash-run": lambda n: "a " + "-" * n + " b\n", "dash-words": lambda n: "a" + " -" * n + " b\n", "dots-run": lambda n: "a" + "." * n + " b\n",
    "quote-run": lambda n: "a " + '"' * n + " b\n", "apos-run": lambda n: "a " + "'" * n + " b\n", "underscores": lambda n: "_" * n,
    "tildes": lambda n: "a " + "~" * n + " b", "tilde-pairs": lambda n: "~~a " * n, "colons": lambda n: ":" * n, "at-run": lambda n: "a" + "@" * n + "b",
    "percent-run": lambda n: "{" + "%" * n + "}", "brace-run": lambda n: "{" * n, "digits": lambda n: "1" * n + ". a", "combining": lambda n: "a" + "\u0301" * n,
    # a number of thousands of digits where a list marker could stand, next to tag lines (whatever looks at the marker must
    # not convert it: int() refuses more than 4300 digits)
    "digits-after-tag-line": lambda n: "{% t %}\n" + "1" * n + ". a\nmore\n{% /t %}\n", "digits-paren-in-tag-paragraph": lambda n: "text {% t %}\n" + "9" * n + ") a\nmore text\n",
    "digits-before-comment-line": lambda n: "- x\n" + "7" * n + ". y\n<!-- c -->\n", "digit-items": lambda n: "".join(str(10 ** 8 + i) + "0" * (n // 64) + ". a\n" for i in range(8)),
    # unclosed openers and unmatched closers of every construct
    "bang-brackets": lambda n: "![" * n, "close-brackets": lambda n: "]" * n, "parens": lambda n: "(" * n, "link-open-paren": lambda n: "[a](" * n,
    "lt-run": lambda n: "<" * n, "lt-slash": lambda n: "</a " * n, "autolink-open": lambda n: "<http://a " * n, "close-tags": lambda n: "%} " * n,
    "hash-brace": lambda n: "{# " * n, "footnote-open": lambda n: "[^" * n, "nested-brackets": lambda n: "[" * (n // 2) + "]" * (n // 2),
    "nested-em": lambda n: "*a " * min(n, 150) + "b*" * min(n, 150), "star-words": lambda n: "a* " * n, "intraword": lambda n: "a*b*c " * n,
    # many well-formed constructs
    "amp": lambda n: "&a " * n, "entities": lambda n: "&amp; " * n, "urls": lambda n: "http://a.b/c " * n, "www": lambda n: "www.a.b " * n,
    "emails": lambda n: "a@b.c " * n, "hard-breaks": lambda n: "a\\\n" * n + "b\n", "escapes": lambda n: "\\* " * n, "strong": lambda n: "**a** " * n,
    "mixed-em": lambda n: "*a _b_* " * n, "images": lambda n: "![a](b) " * n, "link-titles": lambda n: '[a](b "t") ' * n,
    "angle-dests": lambda n: "[a](<b c>) " * n, "same-ref-links": lambda n: "[a][r] " * n + "\n\n[r]: http://x\n",
    "shortcut-refs": lambda n: "[r] " * n + "\n\n[r]: http://x\n", "ref-defs-only": lambda n: "".join(f"[r{i}]: http://x/{i}\n" for i in range(n // 4)),
    "footnote-defs": lambda n: "".join(f"[^{i}]: x\n" for i in range(n // 4)), "dots-tags": lambda n: "a... {% t %} " * n,
    "quotes-tags": lambda n: "\"a\" {% t \"x\" %} " * n, "apos-words": lambda n: "don't 'x' " * n, "dots-lines": lambda n: "a...\n" * n,
    "cjk": lambda n: "\u4e2d\u6587\u5b57" * n, "cjk-sentences": lambda n: "\u8fd9\u662f\u4e00\u53e5\u8bdd\u3002" * n, "emoji": lambda n: "\U0001f600 " * n,
    "abbrev": lambda n: "e.g. " * n, "questions": lambda n: "Why? " * n, "paren-sentences": lambda n: "(Yes.) " * n,
    # many blocks
    "frontmatter-lines": lambda n: "---\n" + "a: b\n" * n + "---\nx\n", "frontmatter-open": lambda n: "---\n" + "a: b\n" * n,
    "fence-open": lambda n: "```\n" + "a\n" * n, "fences": lambda n: "```\na\n```\n\n" * (n // 4), "html-block": lambda n: "<div>\n" + "a\n" * n,
    "html-blocks": lambda n: "<div>\n\n" * (n // 2), "indent-code": lambda n: "    a\n" * n, "task-items": lambda n: "- [ ] a\n" * n,
    "ordered-items": lambda n: "".join(f"{i + 1}. a\n" for i in range(n)), "items-loose": lambda n: "- a\n\n" * n, "headings": lambda n: "# a\n" * n,
    "rules": lambda n: "---\n\n" * n, "alerts": lambda n: "> [!NOTE]\n> a\n\n" * (n // 4), "tag-lines": lambda n: "{% a %}\n" * n,
    "comment-lines": lambda n: "<!-- a -->\n" * n, "tag-blocks": lambda n: "{% a %}\n\nx\n\n{% /a %}\n\n" * (n // 8),
    "table-cols": lambda n: "|" + " a |" * n + "\n|" + "---|" * n + "\n", "table-escaped-pipes": lambda n: "| " + "a\\|" * n + " |\n|---|\n",
    "table-in-para": lambda n: "text\n" + "| a | b |\n" * n,
}
# The text whose parse by the dependency ALONE is timed for the attribution (default: the family's own text). Flowmark
# does not treat a comment line as an HTML block, so marko's inline parser sees the openers; stock marko sees them after "x ".
DEP_TEXT = {"open-comments": lambda n: "x " + "<!-- " * n}
# option sets of the pumped families ("any option values": a huge width = one ever-growing line; width 1 = one word per line)
GROWTH_CONFIGS = {
    "fill": {"width": 88, "semantic": False}, "sem": {"width": 88, "semantic": True}, "huge": {"width": 10 ** 9, "semantic": False},
    "w1": {"width": 1, "semantic": True}, "typo": {"width": 88, "semantic": True, "smartquotes": True, "ellipses": True, "cleanups": True},
}
# families that get every option set at the quick tier as well
CORE_FAMILIES = ("words", "sentences", "lines", "pipe-lines", "numbered-lines", "links", "code-spans", "tag-pairs", "quotes", "dots",
                 "paragraphs", "lt", "open-tags", "open-brackets")
# Quadratic growth that stock marko shows on its own, by mechanism (listed findings; the dependency is not repairable from here).
DEP_MECHANISM = {
    **dict.fromkeys(("space-run", "tab-run", "nbsp-run", "item-spaces", "code-span-spaces", "heading-spaces", "heading-code-spaces",
                     "table-cell-spaces", "trailing-spaces"), "long-run-of-spaces"),
    **dict.fromkeys(("ref-links", "ref-defs-only", "task-items"), "block-start-patterns"),
    **dict.fromkeys(("link-open-paren", "nested-brackets", "footnote-open"), "unclosed-link-openers"),
    "open-comments": "unclosed-comment-openers",
}
_PLACEHOLDER = re.compile(r"\x00AC\d+\x00")


class C12(Prop):
    id = "C12"
    once_kinds = ("growth", "nest", "deepnest")
    level = "exploration"
    rule = ("cases: (a) strings of 1..60 atoms drawn from 100 hostile atoms (delimiters, control characters, line-end mixes, "
            "container markers, tag / comment / footnote openers, NUL and a literal placeholder look-alike) x random option "
            "values incl. widths <= 0, 1, huge, all switches, plaintext; (b) G-doc documents with code blocks (trailing-space "
            "rule); (c) 118 pumped families x option sets {width 88 fill, width 88 semantic, width 10**9, width 1, all typography on} (quick: two per family, all five for 14 core families) at n = 128..4096 (thorough ..16384; on to 65536 while a point costs < 1 s), doubling stops once a point costs 4 s; CPU time is split into what stock marko spends parsing the same text alone and the rest (step counts via sys.monitoring). Non-trivial: input has >= 3 "
            "distinct atoms / the family point ran to completion; distinct by hash of (input, options).")
    assumptions = ["time is judged on deterministic step counts (Python function starts inside flowmark and marko) and, as a "
                   "backstop, on a generous per-case CPU budget; regex backtracking inside the C regex engines is visible only "
                   "through the CPU budget and the hard watchdog"]
    deciding = {"soup": {"quick": 15000, "thorough": 150000}, "growth": {"quick": 1200, "thorough": 4000}, "codews": 200}
    soft_timeout = 12.0
    hard_timeout = 240.0
    soft_clock_cpu = True  # "hangs" is judged on CPU time burnt, so that a machine busy with other work cannot make a case hang

    def cases(self, tier, seed, shard, nshards):
        r = shard_rng(seed, self.id, shard)
        n = 1000 if tier == "quick" else 10000
        for _ in range(n):
            L = r.randint(1, 60)
            s = "".join(r.choice(ATOMS) for _ in range(L))
            if r.random() < 0.02:
                k = r.randint(0, len(s))
                num = str(r.randint(0, 2)) if r.random() < 0.8 else "1" * r.choice([12, 5000])
                s = s[:k] + "\x00AC" + num + "\x00" + s[k:]  # text that looks like an internal placeholder
            o = rand_opts(r, plaintext_p=0.1, widths=[-5, -1, 0, 1, 2, 5, 20, 88, 10 ** 6])
            if r.random() < 0.1:
                o["width"] = r.choice([-10 ** 9, 10 ** 9, 3, 7])
            yield {"kind": "soup", "s": s, "opts": o}
        for _ in range(15 if tier == "quick" else 150):
            yield {"kind": "codews", "seed": r.getrandbits(40), "opts": rand_opts(r)}
        if shard == 0:
            yield {"kind": "nest", "depths": [14, 16, 18, 20, 22]}
        if shard == 1:
            # nesting deeper than the interpreter's recursion limit allows (listed finding KF-C12-recursion-limit)
            yield {"kind": "deepnest"}
        fams = sorted(FAMILIES)
        cfgs = sorted(GROWTH_CONFIGS)
        sizes = [128, 256, 512, 1024, 2048, 4096] + ([8192, 16384] if tier == "thorough" else [])
        # beyond these the doubling goes on (to 65536) only while a point stays cheap: families whose unit costs little
        # (words, quotes) otherwise never reach a size where quadratic work in C code (joins, len, a regex) shows
        more = [x for x in (8192, 16384, 32768, 65536) if x > sizes[-1]]
        jobs = []
        for fi, f in enumerate(fams):
            if tier == "thorough" or f in CORE_FAMILIES:
                mine = cfgs
            else:  # quick: the two wrapping modes alternate, the other option sets rotate
                mine = [("fill", "sem")[(fi + seed) % 2], ("huge", "w1", "typo")[(fi + seed) % 3]]
            jobs += [(f, c) for c in mine]
        for ji, (f, c) in enumerate(jobs):
            if ji % nshards == shard:
                yield {"kind": "growth", "family": f, "config": c, "sizes": sizes, "more": more}

    def timeouts(self, case):
        if case.get("kind") in ("growth", "nest"):
            return 240.0, 1800.0
        return self.soft_timeout, self.hard_timeout

    def on_timeout(self, case, col, hard):
        k = case.get("kind")
        s = case.get("s", "")
        desc = "C12/hang" if k == "soup" else f"C12/hang/{k}"
        # listed mechanism (dependency): a TAB inside the block-prefix region of a line (indentation, quote and list
        # markers) makes marko's prefix matching, which compares tab-expanded lines with raw offsets, loop for ever
        if k == "soup" and not case["opts"].get("plaintext") and re.search(r"(?m)^[ >]*(?:(?:[-+*]|\d+[.)])[ ]*)+\t[ \t]*>", s):
            desc = "C12/hang/tab-after-list-marker-before-quote-marker"
        col.violation("soup" if k == "soup" else str(k), desc + ("/hard-watchdog" if hard else "/soft-alarm"), case,
                      {"timeout": "hard" if hard else "soft", "input": s[:200]})

    def check(self, case, col: Collector):
        getattr(self, "_check_" + case["kind"])(case, col)

    def _check_deepnest(self, case, col):
        docs = {"list-100": "".join("  " * i + "- x\n" for i in range(100)),
                "list-250": "".join("  " * i + "- x\n" for i in range(250)),
                "emphasis-300": "_a " * 300 + "b" + " c_" * 300 + "\n",
                "emphasis-700": "_a " * 700 + "b" + " c_" * 700 + "\n",
                "brackets-800": "x " + "[a " * 800 + "](u) " * 800 + "\n"}
        for name, text in docs.items():
            col.case()
            col.mon("growth")
            out = fm.fmt(text, width=88)
            col.distinct("deepnest", name)
            if isinstance(out, fm.Raised):
                depth = int(name.split("-")[1])
                # listed mechanism: marko's parser and flowmark's renderer recurse once per nesting level
                desc = ("C12/raised/RecursionError/nesting-deeper-than-the-recursion-limit" if out.kind == "RecursionError" and depth >= 200
                        else f"C12/raised/{out.kind}/{out.where}")
                col.violation("growth", desc, dict(case, doc=name), out.text[:300])
            elif not out.endswith("\n"):
                col.violation("growth", "C12/no-final-newline", dict(case, doc=name), out[-40:])

    def _check_soup(self, case, col):
        col.case()
        col.mon("soup")
        s, o = case["s"], case["opts"]
        t0 = time.process_time()
        out = fm.fmt(s, **o)
        cpu = time.process_time() - t0
        if len(set(s)) >= 3:
            col.distinct(s, sorted(o.items()))
        col.hist("mode", "plaintext" if o["plaintext"] else ("semantic" if o["semantic"] else "fill"))
        if isinstance(out, fm.Raised):
            col.violation("soup", f"C12/raised/{out.kind}/{out.where}", case, out.text)
            return
        if not isinstance(out, str):
            col.violation("soup", "C12/not-a-string", case, repr(type(out)))
            return
        if not o["plaintext"] and not out.endswith("\n"):
            col.violation("soup", "C12/no-final-newline", case, {"output_tail": out[-40:]})
        for m in _PLACEHOLDER.finditer(out):
            if m.group(0) not in s and not _PLACEHOLDER.search(s):
                col.violation("soup", "C12/placeholder-leaked", case, {"output": out[max(0, m.start() - 30):m.end() + 30]})
                break
        if _PLACEHOLDER.search(s):
            # text that looks like an internal placeholder must pass through as opaque text
            if len(_PLACEHOLDER.findall(out)) != len(_PLACEHOLDER.findall(s)) or out.count("\x00") > s.count("\x00"):
                col.violation("soup", "C12/placeholder-lookalike-in-input-substituted", case,
                              {"in": _PLACEHOLDER.findall(s)[:4], "out": _PLACEHOLDER.findall(out)[:4], "output": out[:160]})
        elif out.count("\x00") > s.count("\x00"):
            col.violation("soup", "C12/nul-bytes-invented", case, {"in": s.count("\x00"), "out": out.count("\x00")})
        if cpu > 5.0:
            col.violation("soup", "C12/slow/cpu>5s-for-small-input", case, {"cpu_s": round(cpu, 2), "len": len(s)})
        if col.evaluations % 997 == 0:
            col.sample({"input": s, "opts": o, "output": out[:120]})

    def _check_codews(self, case, col):
        col.case()
        d = gen_doc(case["seed"], "core")
        out = fm.fmt(d.text, **dict(case["opts"], plaintext=False))
        if isinstance(out, fm.Raised):
            col.violation("codews", f"C12/raised/{out.kind}/{out.where}", case, out.text)
            return
        fence = None
        for ln in out.split("\n"):
            body = re.sub(r"^(?:[ >]|\d+[.)] |[-*+] )*", "", ln)
            m = re.match(r"^(`{3,}|~{3,})(.*)$", body)
            if fence is None:
                if m and not (m.group(1)[0] == "`" and "`" in m.group(2)):
                    fence = m.group(1)
                continue
            if m and m.group(1)[0] == fence[0] and len(m.group(1)) >= len(fence) and not m.group(2).strip():
                fence = None
                continue
            col.mon("codews")
            if ln.strip(" >") == "" and ln != ln.rstrip(" "):
                col.violation("codews", "C12/code-block-blank-line-has-trailing-spaces", case, {"line": repr(ln)})
                break
        col.distinct("codews", case["seed"], sorted(case["opts"].items()))

    def _check_nest(self, case, col):
        """Block-quote nesting depth: time must not explode with depth (bounded depth, per the property)."""
        cpus = {}
        fm.fmt("> > x\n", width=88)  # warm-up (imports, regex caches)
        for d in case["depths"]:
            col.case()
            col.mon("growth")
            t0 = time.process_time()
            out = fm.fmt("> " * d + "x\n", width=88)
            cpus[d] = time.process_time() - t0
            col.distinct("nest", d)
            if isinstance(out, fm.Raised):
                col.violation("growth", f"C12/raised/{out.kind}/{out.where}", dict(case, depths=[d]), out.text)
                return
        ds = case["depths"]
        col.hist("nest_cpu", ",".join(f"{d}:{cpus[d]:.3f}" for d in ds))
        # exponential: every step of +2 levels multiplies the time (x4 observed); polynomial growth from
        # depth 18 to 22 would be at most (22/18)^3 < 2 per step
        if cpus[ds[-1]] > 0.05 and cpus[ds[-1]] > 2.5 * cpus[ds[-2]] and cpus[ds[-2]] > 2.5 * cpus[ds[-3]]:
            col.violation("growth", "C12/growth/exponential-in-block-quote-depth", case,
                          {"cpu_s": {d: round(v, 4) for d, v in cpus.items()}})

    def _check_growth(self, case, col):
        fam = FAMILIES[case["family"]]
        dep_fam = DEP_TEXT.get(case["family"], fam)
        mon = getattr(sys, "monitoring", None)
        import flowmark
        import marko
        roots = (flowmark.__path__[0], marko.__path__[0])
        steps = {}
        cpus = {}
        deps = {}
        counter = [0]
        if mon is not None:
            tool = mon.PROFILER_ID
            try:
                mon.use_tool_id(tool, "vf-c12")
            except ValueError:
                pass

            def on_start(code, off):
                if code.co_filename.startswith(roots):
                    counter[0] += 1
                else:
                    return mon.DISABLE
            mon.register_callback(tool, mon.events.PY_START, on_start)
        if "config" in case:
            cfg_name, opts = case["config"], GROWTH_CONFIGS[case["config"]]
        else:  # witnesses recorded before the option sets were a dimension
            opts = {"width": case.get("width", 88), "semantic": case["semantic"]}
            cfg_name = "sem" if case["semantic"] else "fill"
        def measure(n):
            """(CPU of stock marko alone, CPU of the whole formatting call, steps, output) for size n."""
            text = fam(n)
            # the same instrumentation is on for both measurements, so that its overhead cancels in the difference
            if mon is not None:
                mon.set_events(tool, mon.events.PY_START)
            t0 = time.process_time()
            try:
                marko.Markdown(extensions=["gfm", "footnote"]).parse(dep_fam(n))
            except RecursionError:
                pass
            dep = time.process_time() - t0
            counter[0] = 0
            t0 = time.process_time()
            out = fm.fmt(text, **opts)
            cpu = time.process_time() - t0
            if mon is not None:
                mon.set_events(tool, 0)
                mon.restart_events()
            return dep, cpu, counter[0], out, text

        for n in list(case["sizes"]) + list(case.get("more", [])):
            if n > case["sizes"][-1] and cpus[max(cpus)] > 1.0:
                break
            col.case()
            deps[n], cpus[n], steps[n], out, text = measure(n)
            col.mon("growth")
            if isinstance(out, fm.Raised):
                col.violation("growth", f"C12/raised/{out.kind}/{out.where}", dict(case, sizes=[n], more=[]), out.text)
                break
            col.distinct("growth", case["family"], cfg_name, n)
            if cpus[n] > 10.0 and len(text) <= 8192:
                col.violation("growth", "C12/slow/cpu>10s", dict(case, sizes=[n], more=[]), {"cpu_s": round(cpus[n], 2), "len": len(text)})
                break
            if cpus[n] > 4.0:
                break  # enough to judge the growth; do not double again
        ns = [n for n in sorted(steps) if steps[n] > 0]
        exps = []
        for a, b in zip(ns, ns[1:]):
            if steps[a] >= 2000:  # ignore the constant-overhead regime
                exps.append(round(math.log2(steps[b] / steps[a]), 2))
        col.hist("growth_exponent", f"{case['family']}/{cfg_name}:{max(exps) if exps else 'n/a'}")
        if exps and max(exps[-2:]) > 2.3:
            col.violation("growth", "C12/growth/steps-superquadratic", case, {"steps": steps, "exponents": exps})
        # CPU-time growth (covers time spent inside the C regex engines, which steps cannot see), judged separately for what
        # stock marko spends parsing the same text on its own (the dependency) and for the rest (flowmark's own work)
        own = {n: max(0.0, cpus[n] - deps[n]) for n in ns}
        detail = {"cpu": {k: round(v, 3) for k, v in cpus.items()}, "marko_alone": {k: round(v, 3) for k, v in deps.items()}}

        def growth(t, share_of=None):
            """('super' | 'quadratic', a, b) for the first pair of doubling sizes at which a series of CPU times grows too fast.
            share_of: the series t is a part of (a difference of two measurements): a point where t is less than a third of it is
            noise of the subtraction, not a measurement."""
            big = [n for n in ns if t[n] > 0.15 and (share_of is None or t[n] >= 0.35 * share_of[n])]
            pairs = [(a, b, t[b] / t[a]) for a, b in zip(big, big[1:]) if b == 2 * a]
            for i, (a, b, q) in enumerate(pairs):
                # eight-fold and more per doubling, or six-fold twice in a row (one six-fold step is a four-fold step measured badly)
                if q > 10.0 or (q > 5.5 and i + 1 < len(pairs) and pairs[i + 1][0] == b and pairs[i + 1][2] > 5.5):
                    return "super", a, b
                if q > 3.0 and t[b] > 0.8:
                    # time quadruples when the input doubles, at a size where it already costs about a second: not "gentle".
                    # Quadratic work shows at EVERY doubling of the larger sizes; one steep step after gentle ones is one bad
                    # measurement (seen on machines that run a dozen other workloads: 2.0, 2.1, 2.8 for a linear family), so
                    # the step before must be steep as well where it was measured
                    half = a // 2
                    if half in t and t[half] > 0.03 and a == 2 * half and t[a] / t[half] <= 2.5:
                        continue
                    return "quadratic", a, b
            return None

        # One measurement per size decides nothing when it is bad: CPU time on a machine that runs sixteen other workers (and
        # the other checks) varies by a factor of two from cache and hyper-thread contention alone. A series that looks too steep
        # is measured again, three more times at the two sizes involved, and judged on the MINIMA (contention only ever adds).
        again: set = set()
        for _round in range(6):
            flagged = [g for g in (growth(own, cpus), growth(deps)) if g and not {g[1], g[2]} <= again]
            if not flagged:
                break
            for _kind, a, b in flagged:
                for n in (a, b):
                    if n in again:
                        continue
                    again.add(n)
                    for _ in range(3):
                        d, c, _s, o, _t = measure(n)
                        if isinstance(o, fm.Raised):
                            break
                        deps[n], cpus[n] = min(deps[n], d), min(cpus[n], c)
                col.count("growth_series_measured_again")
            own = {n: max(0.0, cpus[n] - deps[n]) for n in ns}
            detail = {"cpu": {k: round(v, 3) for k, v in cpus.items()}, "marko_alone": {k: round(v, 3) for k, v in deps.items()},
                      "measured_again_at": sorted(again)}
        if mon is not None:
            try:
                mon.free_tool_id(tool)
            except Exception:  # noqa: BLE001
                pass
        g_own, g_dep = (growth(own, cpus) or [None])[0], (growth(deps) or [None])[0]
        col.count(f"growth_own_{g_own or 'gentle'}")
        col.count(f"growth_marko_alone_{g_dep or 'gentle'}")
        if g_own:
            col.violation("growth", "C12/growth/cpu-superquadratic" if g_own == "super" else "C12/growth/cpu-quadratic", case, detail)
        if g_dep:
            mech = DEP_MECHANISM.get(case["family"], "family-" + case["family"])
            col.violation("growth", f"C12/growth/cpu-{'super' if g_dep == 'super' else ''}quadratic/in-marko-alone/{mech}", case, detail)
        if col.evaluations % 3 == 0:
            col.sample({"family": case["family"], "config": cfg_name, "steps": steps, **detail})


PROP = C12()
