"""C12 — formatting always terminates with well-formed output.

Monitors:
  soup     arbitrary Unicode / punctuation soup (unbalanced delimiters, control characters, CR/LF mixes, tabs,
           container markers, footnote/tag/comment openers) x arbitrary option values: reformat_text returns a
           str, raises nothing, Markdown mode ends with a newline, no NUL / placeholder text that was not in the
           input; every case runs under a soft alarm (pure-Python loops) and a hard watchdog (C-level stalls)
  codews   generated documents with code blocks at every nesting: a blank line inside an emitted code block
           carries no trailing spaces
  growth   pumped families at n, 2n, 4n, ...: the number of Python function calls made inside flowmark + marko
           (sys.monitoring PY_START; deterministic) must not grow faster than ~n^2.3 and CPU time stays bounded
"""
from __future__ import annotations

import math
import re
import sys
import time

from vf import fm
from vf.core import Collector, Prop, shard_rng
from vf.docbase import rand_opts
from vf.gen_doc import gen_doc

ATOMS = ["a", "b", "Z", " ", "  ", "\n", "\n\n", "\t", "*", "**", "_", "__", "`", "``", "```", "~", "~~", "~~~", "[", "]", "(", ")",
         "<", ">", "!", "#", "-", "+", "1.", "|", "\\", "{%", "%}", "{{", "}}", "{#", "#}", "<!--", "-->", '"', "'", "...",
         "=", "---", "===", "&amp;", "&", "<a>", "</a>", "<br/>", "http://x.y", "www.x.y", "\r\n", "\r", "\x00", "\x0b", "\x0c", " ",
         " ", "é", "中", "😀", ":", "[^1]", "[^1]:", "[x]", "[ ]", "> ", "    ", "- ", "1) ", "[!NOTE]", "​", "$",
         "]:", "](", "](<", "<!", "<?", "{% /", "%}{%", ".", "!", "?", "\\\n", "  \n", "\\`", "\\*", "0", "9", "10.", "‮", "﻿",
         "\x1b[0m", "\udcff".encode("utf-8", "surrogatepass").decode("utf-8", "replace")]
FAMILIES = {
    "stars": lambda n: "*" * n, "em-a": lambda n: "_a_ " * n, "backticks": lambda n: "`" * n, "open-brackets": lambda n: "[" * n,
    "bracket-paren": lambda n: "](" * n, "open-comments": lambda n: "<!-- " * n, "open-tags": lambda n: "{% " * n,
    "open-vars": lambda n: "{{ " * n, "pipes": lambda n: "|" * n, "backslashes": lambda n: "\\" * n,
    "quote-nest": lambda n: "> " * min(n // 16, 16) + "x " * n, "list-nest": lambda n: "".join("  " * min(i, 12) + "- x\n" for i in range(n)),
    "lines": lambda n: "a\n" * n, "long-word": lambda n: "a" * n, "footnote-refs": lambda n: "[^1] " * n + "\n\n[^1]: x",
    "words": lambda n: "word " * n, "links": lambda n: "[a](b) " * n, "code-spans": lambda n: "`a` " * n, "lt": lambda n: "a<b " * n,
    "tag-pairs": lambda n: "{% f %}{% /f %} " * n, "quotes": lambda n: "\"a\" 'b' " * n, "dots": lambda n: "a... " * n,
    "paragraphs": lambda n: "para text here.\n\n" * n, "table-rows": lambda n: "| a | b |\n|---|---|\n" + "| c | d |\n" * n,
    "unclosed-lt": lambda n: "i<n " + "word " * n,
}
_PLACEHOLDER = re.compile(r"\x00AC\d+\x00")


class C12(Prop):
    id = "C12"
    once_kinds = ("growth", "nest", "deepnest")
    level = "exploration"
    rule = ("cases: (a) strings of 1..60 atoms drawn from 100 hostile atoms (delimiters, control characters, line-end mixes, "
            "container markers, tag / comment / footnote openers, NUL and a literal placeholder look-alike) x random option "
            "values incl. widths <= 0, 1, huge, all switches, plaintext; (b) G-doc documents with code blocks (trailing-space "
            "rule); (c) 25 pumped families at n = 128..4096 (thorough ..16384), doubling stops once a point costs 4 s (step counts via sys.monitoring). Non-trivial: input has >= 3 "
            "distinct atoms / the family point ran to completion; distinct by hash of (input, options).")
    assumptions = ["time is judged on deterministic step counts (Python function starts inside flowmark and marko) and, as a "
                   "backstop, on a generous per-case CPU budget; regex backtracking inside the C regex engines is visible only "
                   "through the CPU budget and the hard watchdog"]
    deciding = {"soup": {"quick": 15000, "thorough": 150000}, "growth": {"quick": 60, "thorough": 100}, "codews": 200}
    soft_timeout = 12.0
    hard_timeout = 40.0

    def cases(self, tier, seed, shard, nshards):
        r = shard_rng(seed, self.id, shard)
        n = 1000 if tier == "quick" else 10000
        for _ in range(n):
            L = r.randint(1, 60)
            s = "".join(r.choice(ATOMS) for _ in range(L))
            if r.random() < 0.02:
                k = r.randint(0, len(s))
                s = s[:k] + "\x00AC" + str(r.randint(0, 2)) + "\x00" + s[k:]  # text that looks like an internal placeholder
            o = rand_opts(r, plaintext_p=0.1, widths=[-5, -1, 0, 1, 2, 5, 20, 88, 10 ** 6])
            if r.random() < 0.1:
                o["width"] = r.choice([-10 ** 9, 10 ** 9, 3, 7])
            yield {"kind": "soup", "s": s, "opts": o}
        for _ in range(15 if tier == "quick" else 150):
            yield {"kind": "codews", "seed": r.getrandbits(40), "opts": rand_opts(r)}
        if shard == 0:
            yield {"kind": "nest", "depths": [14, 16, 18, 20, 22]}
        if shard == 1:
            # nesting deeper than the interpreter's recursion limit allows (listed finding KF-C12-recursion-limit)
            yield {"kind": "deepnest"}
        fams = sorted(FAMILIES)
        for fi, f in enumerate(fams):
            if fi % nshards == shard:
                for sem in (False, True):
                    yield {"kind": "growth", "family": f, "semantic": sem, "sizes": [128, 256, 512, 1024, 2048, 4096] + ([8192, 16384] if tier == "thorough" else [])}

    def timeouts(self, case):
        if case.get("kind") in ("growth", "nest"):
            return 240.0, 600.0
        return self.soft_timeout, self.hard_timeout

    def on_timeout(self, case, col, hard):
        k = case.get("kind")
        s = case.get("s", "")
        desc = "C12/hang" if k == "soup" else f"C12/hang/{k}"
        # listed mechanism (dependency): a TAB inside the block-prefix region of a line (indentation, quote and list
        # markers) makes marko's prefix matching, which compares tab-expanded lines with raw offsets, loop for ever
        if k == "soup" and not case["opts"].get("plaintext") and re.search(r"(?m)^[ >]*(?:(?:[-+*]|\d+[.)])[ ]*)+\t[ \t]*>", s):
            desc = "C12/hang/tab-after-list-marker-before-quote-marker"
        col.violation("soup" if k == "soup" else str(k), desc + ("/hard-watchdog" if hard else "/soft-alarm"), case,
                      {"timeout": "hard" if hard else "soft", "input": s[:200]})

    def check(self, case, col: Collector):
        getattr(self, "_check_" + case["kind"])(case, col)

    def _check_deepnest(self, case, col):
        docs = {"list-100": "".join("  " * i + "- x\n" for i in range(100)),
                "list-250": "".join("  " * i + "- x\n" for i in range(250)),
                "emphasis-300": "_a " * 300 + "b" + " c_" * 300 + "\n",
                "emphasis-700": "_a " * 700 + "b" + " c_" * 700 + "\n",
                "brackets-800": "x " + "[a " * 800 + "](u) " * 800 + "\n"}
        for name, text in docs.items():
            col.case()
            col.mon("growth")
            out = fm.fmt(text, width=88)
            col.distinct("deepnest", name)
            if isinstance(out, fm.Raised):
                depth = int(name.split("-")[1])
                # listed mechanism: marko's parser and flowmark's renderer recurse once per nesting level
                desc = ("C12/raised/RecursionError/nesting-deeper-than-the-recursion-limit" if out.kind == "RecursionError" and depth >= 200
                        else f"C12/raised/{out.kind}/{out.where}")
                col.violation("growth", desc, dict(case, doc=name), out.text[:300])
            elif not out.endswith("\n"):
                col.violation("growth", "C12/no-final-newline", dict(case, doc=name), out[-40:])

    def _check_soup(self, case, col):
        col.case()
        col.mon("soup")
        s, o = case["s"], case["opts"]
        t0 = time.process_time()
        out = fm.fmt(s, **o)
        cpu = time.process_time() - t0
        if len(set(s)) >= 3:
            col.distinct(s, sorted(o.items()))
        col.hist("mode", "plaintext" if o["plaintext"] else ("semantic" if o["semantic"] else "fill"))
        if isinstance(out, fm.Raised):
            col.violation("soup", f"C12/raised/{out.kind}/{out.where}", case, out.text)
            return
        if not isinstance(out, str):
            col.violation("soup", "C12/not-a-string", case, repr(type(out)))
            return
        if not o["plaintext"] and not out.endswith("\n"):
            col.violation("soup", "C12/no-final-newline", case, {"output_tail": out[-40:]})
        for m in _PLACEHOLDER.finditer(out):
            if m.group(0) not in s and not _PLACEHOLDER.search(s):
                col.violation("soup", "C12/placeholder-leaked", case, {"output": out[max(0, m.start() - 30):m.end() + 30]})
                break
        if _PLACEHOLDER.search(s):
            # text that looks like an internal placeholder must pass through as opaque text
            if len(_PLACEHOLDER.findall(out)) != len(_PLACEHOLDER.findall(s)) or out.count("\x00") > s.count("\x00"):
                col.violation("soup", "C12/placeholder-lookalike-in-input-substituted", case,
                              {"in": _PLACEHOLDER.findall(s)[:4], "out": _PLACEHOLDER.findall(out)[:4], "output": out[:160]})
        elif out.count("\x00") > s.count("\x00"):
            col.violation("soup", "C12/nul-bytes-invented", case, {"in": s.count("\x00"), "out": out.count("\x00")})
        if cpu > 5.0:
            col.violation("soup", "C12/slow/cpu>5s-for-small-input", case, {"cpu_s": round(cpu, 2), "len": len(s)})
        if col.evaluations % 997 == 0:
            col.sample({"input": s, "opts": o, "output": out[:120]})

    def _check_codews(self, case, col):
        col.case()
        d = gen_doc(case["seed"], "core")
        out = fm.fmt(d.text, **dict(case["opts"], plaintext=False))
        if isinstance(out, fm.Raised):
            col.violation("codews", f"C12/raised/{out.kind}/{out.where}", case, out.text)
            return
        fence = None
        for ln in out.split("\n"):
            body = re.sub(r"^(?:[ >]|\d+[.)] |[-*+] )*", "", ln)
            m = re.match(r"^(`{3,}|~{3,})(.*)$", body)
            if fence is None:
                if m and not (m.group(1)[0] == "`" and "`" in m.group(2)):
                    fence = m.group(1)
                continue
            if m and m.group(1)[0] == fence[0] and len(m.group(1)) >= len(fence) and not m.group(2).strip():
                fence = None
                continue
            col.mon("codews")
            if ln.strip(" >") == "" and ln != ln.rstrip(" "):
                col.violation("codews", "C12/code-block-blank-line-has-trailing-spaces", case, {"line": repr(ln)})
                break
        col.distinct("codews", case["seed"], sorted(case["opts"].items()))

    def _check_nest(self, case, col):
        """Block-quote nesting depth: time must not explode with depth (bounded depth, per the property)."""
        cpus = {}
        fm.fmt("> > x\n", width=88)  # warm-up (imports, regex caches)
        for d in case["depths"]:
            col.case()
            col.mon("growth")
            t0 = time.process_time()
            out = fm.fmt("> " * d + "x\n", width=88)
            cpus[d] = time.process_time() - t0
            col.distinct("nest", d)
            if isinstance(out, fm.Raised):
                col.violation("growth", f"C12/raised/{out.kind}/{out.where}", dict(case, depths=[d]), out.text)
                return
        ds = case["depths"]
        col.hist("nest_cpu", ",".join(f"{d}:{cpus[d]:.3f}" for d in ds))
        # exponential: every step of +2 levels multiplies the time (x4 observed); polynomial growth from
        # depth 18 to 22 would be at most (22/18)^3 < 2 per step
        if cpus[ds[-1]] > 0.05 and cpus[ds[-1]] > 2.5 * cpus[ds[-2]] and cpus[ds[-2]] > 2.5 * cpus[ds[-3]]:
            col.violation("growth", "C12/growth/exponential-in-block-quote-depth", case,
                          {"cpu_s": {d: round(v, 4) for d, v in cpus.items()}})

    def _check_growth(self, case, col):
        fam = FAMILIES[case["family"]]
        mon = getattr(sys, "monitoring", None)
        import flowmark
        import marko
        roots = (flowmark.__path__[0], marko.__path__[0])
        steps = {}
        cpus = {}
        counter = [0]
        if mon is not None:
            tool = mon.PROFILER_ID
            try:
                mon.use_tool_id(tool, "vf-c12")
            except ValueError:
                pass

            def on_start(code, off):
                if code.co_filename.startswith(roots):
                    counter[0] += 1
                else:
                    return mon.DISABLE
            mon.register_callback(tool, mon.events.PY_START, on_start)
        for n in case["sizes"]:
            col.case()
            text = fam(n)
            counter[0] = 0
            if mon is not None:
                mon.set_events(tool, mon.events.PY_START)
            t0 = time.process_time()
            out = fm.fmt(text, width=88, semantic=case["semantic"])
            cpus[n] = time.process_time() - t0
            if mon is not None:
                mon.set_events(tool, 0)
                mon.restart_events()
            steps[n] = counter[0]
            col.mon("growth")
            if isinstance(out, fm.Raised):
                col.violation("growth", f"C12/raised/{out.kind}/{out.where}", dict(case, sizes=[n]), out.text)
                break
            col.distinct("growth", case["family"], case["semantic"], n)
            if cpus[n] > 10.0 and len(text) <= 8192:
                col.violation("growth", "C12/slow/cpu>10s", dict(case, sizes=[n]), {"cpu_s": round(cpus[n], 2), "len": len(text)})
                break
            if cpus[n] > 4.0:
                break  # enough to judge the growth; do not double again
        if mon is not None:
            try:
                mon.free_tool_id(tool)
            except Exception:  # noqa: BLE001
                pass
        ns = [n for n in case["sizes"] if n in steps and steps[n] > 0]
        exps = []
        for a, b in zip(ns, ns[1:]):
            if steps[a] >= 2000:  # ignore the constant-overhead regime
                exps.append(round(math.log2(steps[b] / steps[a]), 2))
        col.hist("growth_exponent", f"{case['family']}/{'sem' if case['semantic'] else 'fill'}:{max(exps) if exps else 'n/a'}")
        if exps and max(exps[-2:]) > 2.3:
            col.violation("growth", "C12/growth/steps-superquadratic", case, {"steps": steps, "exponents": exps})
        # CPU-time growth (covers time spent inside the C regex engines, which steps cannot see)
        big = [n for n in ns if cpus[n] > 0.15]
        for a, b in zip(big, big[1:]):
            if b == 2 * a and cpus[b] / cpus[a] > 6.0:
                col.violation("growth", "C12/growth/cpu-superquadratic", case, {"cpu": {k: round(v, 3) for k, v in cpus.items()}})
                break
            if b == 2 * a and cpus[b] / cpus[a] > 3.0 and cpus[b] > 0.8:
                # time quadruples when the input doubles, at a size where it already costs about a second: not "gentle"
                desc = "C12/growth/cpu-quadratic"
                if case["family"] in ("open-comments", "open-tags", "open-vars"):
                    # listed mechanism: every unclosed opener makes a lazy '.*?' pattern (flowmark's tag patterns and marko's
                    # inline HTML pattern) scan to the end of the paragraph
                    desc = "C12/growth/cpu-quadratic/unclosed-tag-or-comment-openers"
                col.violation("growth", desc, case, {"cpu": {k: round(v, 3) for k, v in cpus.items()}})
                break
        if col.evaluations % 3 == 0:
            col.sample({"family": case["family"], "semantic": case["semantic"], "steps": steps, "cpu_s": {k: round(v, 3) for k, v in cpus.items()}})


PROP = C12()
