"""C05 — wrapping is lossless, width-bounded and maximal.

Monitors (all on the real functions):
  lines      wrap_paragraph_lines called directly (random G-para + bounded-exhaustive sweep)
  para       wrap_paragraph with indent strings
  wrapper    line_wrap_to_width / line_wrap_by_sentence closures (hard-break and tag segments)
  plaintext  reformat_text(plaintext=True) and fill_text in every Wrap mode
  doc        per-paragraph (text, indents, result) triples captured by a recording line_wrapper
             handed to fill_markdown (public parameter) during whole-document runs
  contract   icontract.ensure post-condition on wrap_paragraph_lines, evaluated on every internal
             call made while the other monitors run (auxiliary: localises, never decides alone)
"""
from __future__ import annotations

import itertools
import re

from vf import fm
from vf.core import Collector, Prop, shard_rng
from vf.gen_para import (CODE_SPANS, HAZ_ESCAPED, HAZ_UNESCAPED, HTML, LINKS, PAIRED, PREFIXES, TAGS, long_atom, para_words,
                         plain_word)
from vf.wrapjudge import judge, norm

OPEN_TAGS = [t for t in TAGS if "/" not in t[:6]]


def split_out_segments(lines: list[str], segs: list[str], sep: str, ii: str, si: str):
    """Assign emitted lines to the input segments (segments are separated in the output by a
    trailing backslash for hard breaks, by a plain newline for tag newlines)."""
    groups: list[list[str]] = []
    if sep == "hard":
        cur: list[str] = []
        for ln in lines:
            # a hard break is spelled with a trailing backslash or with two or more trailing spaces
            if (ln.endswith("\\") or ln.endswith("  ")) and len(groups) < len(segs) - 1:
                cur.append(ln[:-1] if ln.endswith("\\") else ln.rstrip(" "))
                groups.append(cur)
                cur = []
            else:
                cur.append(ln)
        groups.append(cur)
        return groups
    # tag segments: consume by text length
    li = 0
    for j, seg in enumerate(segs):
        want = len(norm(seg).replace(" ", ""))
        got = 0
        cur = []
        while li < len(lines) and got < want:
            ind = ii if li == 0 else si
            body = lines[li][len(ind):] if lines[li].startswith(ind) else lines[li]
            got += len(norm(body).replace(" ", "").replace("\\", "")) if False else len(norm(body).replace(" ", ""))
            cur.append(lines[li])
            li += 1
        groups.append(cur)
    if li < len(lines):
        groups[-1].extend(lines[li:])
    return groups


class C05(Prop):
    id = "C05"
    once_kinds = ("exh",)
    rule = ("cases: (a) bounded-exhaustive sweep of wrap_paragraph_lines over all word-length vectors of <=5 words "
            "with lengths 1..4 x widths 1..8 x initial column 0..3 x subsequent offset 0..3; (b) seeded random "
            "G-para paragraphs (plain/long words, hazard tokens, atomic constructs) through wrap_paragraph_lines, "
            "wrap_paragraph, the two public LineWrapper factories (with hard-break and tag-newline segments), "
            "fill_text in every Wrap mode and reformat_text(plaintext=True); (c) every paragraph of generated "
            "documents captured by a recording line_wrapper passed to fill_markdown. A case is non-trivial when the "
            "output has >= 2 lines (a break decision was made) or width <= 0; distinct by hash of (kind, text, parameters).")
    assumptions = ["a 'word' for the width and maximality clauses is a token of flowmark's public word splitter "
                   "(get_html_md_word_splitter); which constructs may be atomic is judged independently by C06",
                   "fill_text reduces the width by the subsequent indent (documented mechanism): lines are judged "
                   "against the configured width for the bound and against the reduced width for maximality"]
    deciding = {"lines": {"quick": 20000, "thorough": 100000}, "wrapper": 2000, "plaintext": 500, "para": 1000}
    soft_timeout = 60.0

    # ------------------------------------------------------------------ workload
    def cases(self, tier, seed, shard, nshards):
        r = shard_rng(seed, self.id, shard)
        # exhaustive blocks are split over shards
        blocks = [(w, ic) for w in range(1, 9) for ic in range(0, 4)]
        for bi, (w, ic) in enumerate(blocks):
            if bi % nshards == shard:
                yield {"kind": "exh", "width": w, "ic": ic}
        n = (2500 if tier == "quick" else 25000)
        for i in range(n):
            if i % 500 == 13:
                ii, si = r.choice(PREFIXES)
                yield {"kind": "emptyseg", "a": " ".join(plain_word(r, 8) for _ in range(r.randint(1, 6))), "b": " ".join(plain_word(r, 8) for _ in range(r.randint(1, 6))),
                       "hb": r.choice(["\\\n", "  \n"]), "ii": ii, "si": si, "width": r.choice([0, 12, 40, 88])}
            if i % 400 == 11:
                # one paragraph with hundreds or thousands of atomic constructs (an index, a table of them, a counter with a fixed
                # number of digits ...), and one with a single construct of several thousand characters
                many = [w for s_ in para_words(r, r.choice([12, 30, 110]), atoms=0.5, haz=0.05, atom_pool=CODE_SPANS + LINKS + HTML + PAIRED) for w in s_]
                big = [w for s_ in para_words(r, 3, atoms=0.1, haz=0.1, atom_pool=CODE_SPANS + LINKS + HTML) for w in s_]
                big.insert(r.randint(1, len(big) - 1), long_atom(r, r.choice(["code", "link", "html", "hcomment", "jtag"])))
                for ws_ in (many, big):
                    ii, si = r.choice(PREFIXES)
                    w_ = r.choice([r.randint(8, 40), 88, 0])
                    yield {"kind": "lines", "text": " ".join(ws_), "width": w_, "ic": 0, "so": r.choice([0, 2]), "md": True, "plain": False, "scale": len(ws_)}
                    yield {"kind": "wrapper", "segs": [" ".join(ws_)], "sep": "none", "width": w_, "ii": ii, "si": si,
                           "semantic": r.random() < 0.5, "hb": "\\\n", "scale": len(ws_)}
            k = r.random()
            width = r.choice([r.randint(1, 12), r.randint(8, 40), r.randint(20, 100), 88, 0, -1, -5]) if r.random() < 0.9 else 10 ** 6
            atoms = r.choice([0, 0, 0.1, 0.3])
            haz = r.choice([0, 0, 0.1, 0.3])
            sents = para_words(r, r.randint(1, 4), atoms=atoms, haz=haz, atom_pool=CODE_SPANS + LINKS + OPEN_TAGS + HTML + PAIRED)
            words = [w for s in sents for w in s]
            sep = r.choice([" ", " ", " ", "  ", "\n", " \t "])
            text = sep.join(words) if r.random() < 0.8 else " ".join(words)
            plain = atoms == 0 and not re.search(r"[`\[{]|<[A-Za-z/!]", text)
            if k < 0.35:
                yield {"kind": "lines", "text": text, "width": width, "ic": r.choice([0, 0, 1, 2, 4, 9, 15]),
                       "so": r.choice([0, 0, 2, 4, 7]), "md": r.random() < 0.5, "plain": plain}
            elif k < 0.50:
                ii, si = r.choice(PREFIXES)
                if r.random() < 0.3:
                    ii, si = " " * r.randint(0, 6), " " * r.randint(0, 6)
                yield {"kind": "para", "text": text, "width": width, "ii": ii, "si": si, "md": r.random() < 0.5, "plain": plain}
            elif k < 0.80:
                ii, si = r.choice(PREFIXES)
                nseg = r.choice([1, 1, 1, 2, 3])
                sepk = r.choice(["hard", "tag"]) if nseg > 1 else "none"
                segs = []
                wordlists = []
                for j in range(nseg):
                    ws = [w for s in para_words(r, r.randint(1, 3), atoms=atoms, haz=haz if sepk != "tag" else 0,
                                                atom_pool=CODE_SPANS + LINKS + OPEN_TAGS + HTML + PAIRED) for w in s]
                    if sepk == "tag" and j < nseg - 1:
                        ws.append(r.choice(OPEN_TAGS))
                    if sepk == "tag":
                        # a segment that starts like a list item or table row is block content for
                        # the tag heuristics (C06's business); keep C05's segments plain
                        while ws and (re.match(r"^([-*+]|\d{1,9}[.)])$", ws[0]) or ws[0].startswith("|")):
                            ws[0] = "x" + ws[0]
                    if sepk == "hard":
                        ws = [w for w in ws if w != "\\"] or ["x"]
                    segs.append(" ".join(ws))
                    wordlists.append(ws)
                c = {"kind": "wrapper", "segs": segs, "sep": sepk, "width": width, "ii": ii, "si": si,
                     "semantic": r.random() < 0.5, "hb": r.choice(["\\\n", "  \n"])}
                if sepk == "hard" and r.random() < 0.12:
                    # a tag written over two source lines as the LAST thing before the hard break (and one in the middle): the break
                    # right behind its closing delimiter is a break, a break-like line end inside it is tag text
                    tg = r.choice([("{% tag a=1 b=\"x y\" %}", "{% tag a=1\nb=\"x y\" %}"), ("<!-- a comment here -->", "<!-- a comment\nhere -->"),
                                   ("{{ v | f(1, 2) }}", "{{ v |\nf(1, 2) }}"), ("{# note to self #}", "{# note  \nto self #}")])
                    # (two fence look-alikes in the paragraph would pair up as a code span around the tag: then nothing in between
                    # is a tag or a hard break any more)
                    segs = [" ".join("word" if w_ in ("```", "```typescript-react") else w_ for w_ in sg.split(" ")) for sg in segs]
                    if re.match(r"^([-*+]|\d{1,9}[.)])( |$)", segs[0]) or segs[0].startswith("|"):
                        segs[0] = "x" + segs[0]  # (a line that looks like a list item or table row next to a tag is block content for the tag heuristics: C06's business)
                    segs[0] = segs[0] + " " + tg[0]
                    c["segs"] = segs
                    c["layout"] = [segs[0][:-len(tg[0])] + tg[1]] + segs[1:]
                    c["multi_line_tag_before_break"] = True
                elif r.random() < 0.4:
                    # source layout: soft line breaks / space runs between plain words (never next to a
                    # tag, never before a word that could start a block)
                    lay = []
                    odd = r.random() < 0.4
                    for ws in wordlists:
                        t = ws[0]
                        for a, b in zip(ws, ws[1:]):
                            plain = a[-1].isalnum() and b[0].isalpha() and a[-1] not in "}>" and b[0] not in "{<"
                            tagish = a[-2:] in ("%}", "}}", "#}", "->") or b[:2] in ("{%", "{{", "{#", "<!")
                            if odd and tagish and r.random() < 0.6:
                                # white space that is NOT a line break, directly next to a tag (str.splitlines() would split here)
                                t += r.choice(["\u2028", "\u2029", "\x85", "\x0b", "\x1c", "\x1d"]) + b
                                c["odd_space_next_to_tag"] = True
                                continue
                            t += (r.choice([" ", "\n", "  ", "\n", " \n"]) if plain else " ") + b
                        lay.append(t)
                    c["layout"] = lay
                yield c
            elif k < 0.83:
                cj = ["中文", "日本語", "汉字", "ｆｕｌｌ", "한국어", "e\u0301te\u0301", "naı\u0308ve", "wide漢字mix"]
                ws = [r.choice(cj) if r.random() < 0.5 else plain_word(r, 8) for _ in range(r.randint(3, 14))]
                if r.random() < 0.6:
                    # short sentences: the sentence wrapper's short-line merge has to measure with the caller's function too
                    from vf.gen_para import SENT_END
                    ws = [w + r.choice(["。", ".", "!", "?"]) if (r.random() < 0.3 and w[-1:].isalpha()) else w for w in ws]
                    ws.insert(r.randint(1, len(ws)), r.choice(SENT_END))
                ii, si = r.choice(PREFIXES)
                yield {"kind": "lenfn", "text": " ".join(ws), "width": r.choice([r.randint(6, 20), r.randint(10, 40)]), "ii": ii, "si": si}
            elif k < 0.90:
                pw = [[w for s in para_words(r, r.randint(1, 3), atoms=atoms, haz=haz) for w in s if "  " not in w]
                      for _ in range(r.randint(1, 3))]
                paras = [" ".join(ws) for ws in pw]
                c = {"kind": "plaintext", "paras": paras, "width": width, "gap": r.choice(["\n\n", "\n\n\n", "\n\n"])}
                if r.random() < 0.4 and not any(ch in p for p in paras for ch in "`[{<"):  # soft newlines / space runs
                    c["paras_in"] = ["".join(w + r.choice([" ", " ", "\n", "  "]) for w in ws).strip() for ws in pw]
                yield c
            else:
                pw = [[plain_word(r) for _ in range(r.randint(1, 25))] for _ in range(r.randint(1, 3))]
                paras = [" ".join(ws) for ws in pw]
                c = {"kind": "fill_text", "paras": paras, "width": r.choice([r.randint(10, 40), 60, 88]),
                     "wrap": r.choice(["WRAP", "WRAP_FULL", "WRAP_INDENT", "HANGING_INDENT", "MARKDOWN_ITEM"]),
                     "extra": r.choice(["", "", "  ", "> "])}
                if r.random() < 0.3:
                    c["paras_in"] = ["".join(w + r.choice([" ", " ", "\n", "  "]) for w in ws).strip() for ws in pw]
                yield c
        # whole documents through the recording wrapper
        try:
            from vf.gen_doc import gen_doc  # noqa: F401  late import: not needed by the other kinds
        except ImportError:
            return
        nd = 150 if tier == "quick" else 1500
        for i in range(nd):
            ds = r.getrandbits(48)
            yield {"kind": "doc", "doc_seed": ds, "width": r.choice([r.randint(8, 30), r.randint(20, 60), 88, 0]),
                   "semantic": r.random() < 0.5}

    # ------------------------------------------------------------------ monitors
    def setup_worker(self, col: Collector, tier: str) -> None:
        self.col = col
        self._install_contract(col)

    def _install_contract(self, col: Collector) -> None:
        """icontract post-condition on the real wrap_paragraph_lines, seen by every caller that
        looks the name up in its module at call time (text_wrapping, line_wrappers)."""
        try:
            import icontract
            from flowmark.linewrapping import line_wrappers, text_wrapping
        except Exception as e:  # noqa: BLE001
            col.note(f"contract monitor off: {e}")
            return
        if not hasattr(text_wrapping, "wrap_paragraph_lines"):
            col.note("contract monitor off: text_wrapping.wrap_paragraph_lines not found")
            return
        me = self

        def post_wrap_lines(text, width, result, initial_column=0, subsequent_offset=0, replace_whitespace=True,
                            drop_whitespace=True, splitter=None, len_fn=len, is_markdown=False):
            if splitter is not None or len_fn is not len or not replace_whitespace or not drop_whitespace:
                return True
            col.mon("contract")
            me._judge_lines_call("contract", {"kind": "lines", "text": text, "width": width, "ic": initial_column,
                                              "so": subsequent_offset, "md": is_markdown, "via": "contract"},
                                 result, col, distinct=False)
            return True

        try:
            wrapped = icontract.ensure(post_wrap_lines, error=AssertionError)(text_wrapping.wrap_paragraph_lines)
        except Exception as e:  # noqa: BLE001
            col.note(f"contract monitor off: {e}")
            return
        self._orig = text_wrapping.wrap_paragraph_lines
        text_wrapping.wrap_paragraph_lines = wrapped
        if getattr(line_wrappers, "wrap_paragraph_lines", None) is self._orig:
            line_wrappers.wrap_paragraph_lines = wrapped

    def _judge_lines_call(self, monitor, case, res, col, distinct=True):
        if isinstance(res, fm.Raised):
            col.violation(monitor, f"C05/raised/{res.kind}", case, res.text)
            return
        if not isinstance(res, list):
            col.violation(monitor, "C05/type/not-a-list", case, repr(res)[:200])
            return
        ii = " " * case["ic"]
        si = " " * case["so"]
        # bodies have no indent at this level: emulate by prefixing
        lines = [(ii if i == 0 else si) + ln for i, ln in enumerate(res)]
        devs = judge(case["text"], lines, case["width"], ii, si, fill=True, allow_escape=case["md"], plain_tokens=bool(case.get("plain")))
        self._report(monitor, devs, case, col, mode="fill", indent0=case["ic"], indent=case["so"])
        if distinct and (len(res) >= 2 or case["width"] <= 0):
            col.distinct("lines", case["text"], case["width"], case["ic"], case["so"], case["md"])

    def _report(self, monitor, devs, case, col, mode, indent0, indent):
        for kind, d in devs:
            desc = f"C05/{kind}/{mode}"
            if kind == "overlong":
                if d.get("hard_end") and d["excess"] == 1:
                    desc = f"C05/overlong/{mode}/hard-break-backslash"
                elif mode == "fill" and d["line"] == 0 and d["indent"] + d["first_word_len"] > d["width"]:
                    desc = "C05/overlong/fill/first-word-overshoot"
                elif mode == "semantic":
                    desc = "C05/overlong/semantic/excess<=indent" if d["excess"] <= max(indent0, indent) else \
                        "C05/overlong/semantic/excess>indent"
            col.violation(monitor, desc, case, d)

    def check(self, case: dict, col: Collector) -> None:
        k = case["kind"]
        getattr(self, "_check_" + k)(case, col)

    def _check_exh(self, case, col):
        w, ic = case["width"], case["ic"]
        n = 0
        for nw in range(1, 6):
            for vec in itertools.product(range(1, 5), repeat=nw):
                text = " ".join(chr(97 + i) * L for i, L in enumerate(vec))
                for so in range(0, 4):
                    res = fm.call(fm.wrap_paragraph_lines, text, w, initial_column=ic, subsequent_offset=so)
                    n += 1
                    sub = {"kind": "lines", "text": text, "width": w, "ic": ic, "so": so, "md": False}
                    self._judge_lines_call("lines", sub, res, col)
        col.case(n)
        col.mon("lines", n)
        col.count("exhaustive_cases", n)
        col.hist("exh_blocks", f"w={w},ic={ic}")

    def _check_lines(self, case, col):
        col.case()
        col.mon("lines")
        res = fm.call(fm.wrap_paragraph_lines, case["text"], case["width"], initial_column=case["ic"],
                      subsequent_offset=case["so"], is_markdown=case["md"])
        self._judge_lines_call("lines", case, res, col)
        col.hist("width", bucket(case["width"]))
        if col.evaluations % 997 == 0:
            col.sample({"case": case, "result": res if not isinstance(res, fm.Raised) else res.text})

    def _check_para(self, case, col):
        col.case()
        col.mon("para")
        res = fm.call(fm.wrap_paragraph, case["text"], case["width"], initial_indent=case["ii"],
                      subsequent_indent=case["si"], is_markdown=case["md"])
        if isinstance(res, fm.Raised):
            col.violation("para", f"C05/raised/{res.kind}", case, res.text)
            return
        lines = res.split("\n") if res else []
        devs = judge(case["text"], lines, case["width"], case["ii"], case["si"], fill=True, allow_escape=case["md"],
                     plain_tokens=bool(case.get("plain")))
        if case.get("plain"):
            col.count("judged_with_plain_tokens")
        self._report("para", devs, case, col, "fill", len(case["ii"]), len(case["si"]))
        if len(lines) >= 2 or case["width"] <= 0:
            col.distinct("para", case)
        col.hist("prefix", repr(case["ii"]))

    def _check_emptyseg(self, case, col):
        """A paragraph with a line that holds nothing but a hard line break: that line is a line of the paragraph too and
        carries the continuation indent."""
        ii, si, w = case["ii"], case["si"], case["width"]
        text = case["a"] + case["hb"] + case["hb"] + case["b"]
        for sem in (False, True):
            col.case()
            col.mon("wrapper")
            factory = fm.line_wrap_by_sentence if sem else fm.line_wrap_to_width
            wrapper = fm.call(factory, width=w, is_markdown=True)
            res = fm.call(wrapper, text, ii, si) if not isinstance(wrapper, fm.Raised) else wrapper
            if isinstance(res, fm.Raised):
                col.violation("wrapper", f"C05/raised/{res.kind}", dict(case, semantic=sem), res.text)
                continue
            lines = res.split("\n")
            col.distinct("emptyseg", text, ii, w, sem)
            bad = [i for i, ln in enumerate(lines) if not ln.startswith((ii if i == 0 else si).rstrip() if ln.strip() in ("", "\\") else (ii if i == 0 else si))]
            if bad:
                col.violation("wrapper", "C05/indent/" + ("semantic" if sem else "fill"), dict(case, semantic=sem),
                              {"line": bad[0], "got": lines[bad[0]][:60], "want_prefix": ii if bad[0] == 0 else si})

    def _check_lenfn(self, case, col):
        """The public wrapping functions with a caller-supplied measure (display width: CJK / fullwidth = 2 columns,
        combining marks = 0) instead of len()."""
        import unicodedata

        def dw(t):
            return sum(0 if unicodedata.combining(ch) else (2 if unicodedata.east_asian_width(ch) in "WF" else 1) for ch in t)
        text, width, ii, si = case["text"], case["width"], case["ii"], case["si"]
        runs = [("wrap_paragraph", lambda: fm.wrap_paragraph(text, width=width, initial_indent=ii, subsequent_indent=si, len_fn=dw), True),
                ("line_wrap_to_width", lambda: fm.line_wrap_to_width(width=width, len_fn=dw)(text, ii, si), True),
                ("line_wrap_by_sentence", lambda: fm.line_wrap_by_sentence(width=width, len_fn=dw)(text, ii, si), False)]
        for name, fn, fill in runs:
            col.case()
            col.mon("para")
            res = fm.call(fn)
            if isinstance(res, fm.Raised):
                col.violation("para", f"C05/raised/{res.kind}", dict(case, via=name), res.text)
                continue
            lines = res.split("\n") if res else []
            if len(lines) >= 2:
                col.distinct("lenfn", name, text, width, ii)
            col.count("custom_len_fn_runs")
            devs = judge(text, lines, width, ii, si, fill=fill, allow_escape=False, lenf=dw)
            # the listed overshoot mechanism (the short-line merge ignores the indent: excess <= indent) is the same under
            # another measure; _report classifies it with the indents measured by that function
            self._report("para", devs, dict(case, via=name), col, "fill" if fill else "semantic", dw(ii), dw(si))

    def _check_wrapper(self, case, col):
        col.case()
        col.mon("wrapper")
        width, ii, si = case["width"], case["ii"], case["si"]
        sem = case["semantic"]
        factory = fm.line_wrap_by_sentence if sem else fm.line_wrap_to_width
        wrapper = fm.call(factory, width=width, is_markdown=True)
        if isinstance(wrapper, fm.Raised):
            col.violation("wrapper", f"C05/raised/{wrapper.kind}", case, wrapper.text)
            return
        joiner = case["hb"] if case["sep"] == "hard" else "\n"
        text = joiner.join(case.get("layout") or case["segs"])
        res = fm.call(wrapper, text, ii, si)
        if isinstance(res, fm.Raised):
            col.violation("wrapper", f"C05/raised/{res.kind}", case, res.text)
            return
        self.judge_wrapper_result(case["segs"], case["sep"], res, width, ii, si, sem, case, col, "wrapper")
        col.hist("mode", "semantic" if sem else "fill")
        col.hist("prefix", repr(ii))
        col.hist("segments", f"{case['sep']}x{len(case['segs'])}")
        if col.evaluations % 499 == 0:
            col.sample({"case": case, "result": res})

    def judge_wrapper_result(self, segs, sep, res, width, ii, si, sem, case, col, monitor):
        lines = res.split("\n") if res else []
        mode = "semantic" if sem else "fill"
        if len(segs) == 1:
            groups = [lines]
        else:
            groups = split_out_segments(lines, segs, sep, ii, si)
        nontriv = width <= 0
        for j, (seg, g) in enumerate(zip(segs, groups)):
            first_ind = ii if j == 0 else si
            hard_end = sep == "hard" and j < len(segs) - 1
            # the first word after a hard break starts a line inside the paragraph: it may be escaped too
            devs = judge(seg, g, width, first_ind, si, fill=not sem, first_line_escape=(sep == "hard" and j > 0))
            if hard_end and width > 0 and g and res.split("\n")[sum(len(x) for x in groups[:j + 1]) - 1].endswith("\\"):
                # the trailing backslash of a hard break is part of the emitted line
                last = g[-1]
                if len(last) + 1 > width and len(norm(last[len(si if len(g) > 1 else first_ind):]).split(" ")) > 1 \
                        and not any(k == "overlong" and d["line"] == len(g) - 1 for k, d in devs):
                    devs.append(("overlong", {"line": len(g) - 1, "len": len(last) + 1, "width": width, "excess": 1,
                                              "indent": len(si), "first_word_len": 0, "hard_end": True,
                                              "text": last[-60:] + "\\"}))
            self._report(monitor, devs, case, col, mode, len(ii), len(si))
            if len(g) >= 2:
                nontriv = True
        if len(groups) != len(segs):
            col.violation(monitor, f"C05/segments/{mode}", case, {"segments": len(segs), "groups": len(groups)})
        if nontriv:
            col.distinct("wrapper", case)

    def _check_plaintext(self, case, col):
        col.case()
        col.mon("plaintext")
        paras = case["paras"]
        text = case["gap"].join(case.get("paras_in") or paras)
        res = fm.call(fm.reformat_text, text, width=case["width"], plaintext=True)
        if isinstance(res, fm.Raised):
            col.violation("plaintext", f"C05/raised/{res.kind}", case, res.text)
            return
        outp = re.split(r"\n{2,}", res)
        if len(outp) != len(paras):
            col.violation("plaintext", "C05/plaintext/paragraph-count", case, {"in": len(paras), "out": len(outp)})
            return
        nontriv = case["width"] <= 0
        for p, o in zip(paras, outp):
            lines = o.split("\n")
            devs = judge(p, lines, case["width"], "", "", fill=True, allow_escape=False)
            for kind, d in devs:
                col.violation("plaintext", f"C05/{kind}/plaintext", case, d)
            nontriv = nontriv or len(lines) >= 2
        if nontriv:
            col.distinct("plaintext", case)

    def _check_fill_text(self, case, col):
        col.case()
        col.mon("plaintext")
        W = getattr(fm.Wrap, case["wrap"])
        paras = case["paras"]
        text = "\n\n".join(case.get("paras_in") or paras)
        res = fm.call(fm.fill_text, text, text_wrap=W, width=case["width"], extra_indent=case["extra"])
        if isinstance(res, fm.Raised):
            col.violation("plaintext", f"C05/raised/{res.kind}", case, res.text)
            return
        ex = case["extra"]
        ii0 = ex + W.initial_indent
        si = ex + W.subsequent_indent
        outp = re.split(r"\n[ >]*\n", res)
        if len(outp) != len(paras):
            col.violation("plaintext", "C05/fill_text/paragraph-count", case, {"in": len(paras), "out": len(outp)})
            return
        for j, (p, o) in enumerate(zip(paras, outp)):
            ii = si if (W.initial_indent_first_para_only and j > 0) else ii0
            lines = o.split("\n")
            devs = judge(p, lines, case["width"], ii, si, fill=True, allow_escape=False,
                         fill_width=case["width"] - len(si))
            for kind, d in devs:
                col.violation("plaintext", f"C05/{kind}/fill_text/{case['wrap']}", case, d)
            if len(lines) >= 2:
                col.distinct("fill_text", case)
        col.hist("wrap_mode", case["wrap"])

    def _check_doc(self, case, col):
        from vf.gen_doc import gen_doc
        from vf.recwrap import record_paragraphs

        col.case()
        doc = gen_doc(case["doc_seed"], profile="core")
        rec = record_paragraphs(doc.text, width=case["width"], semantic=case["semantic"])
        if isinstance(rec, fm.Raised):
            col.violation("doc", f"C05/raised/{rec.kind}", case, rec.text)
            return
        if rec.mismatch:
            col.note("recording wrapper run differed from reformat_text; doc monitor skipped for that case")
            col.count("doc_recording_mismatch")
            return
        for (text, ii, si, out) in rec.calls:
            col.mon("doc")
            segs, sep = rec.segments_of(text)
            sub = {"kind": "wrapper", "segs": segs, "sep": sep, "width": case["width"], "ii": ii, "si": si,
                   "semantic": case["semantic"], "hb": "\\\n", "from_doc_seed": case["doc_seed"]}
            if sep == "mixed":
                col.count("doc_paragraphs_with_mixed_segments_skipped")
                continue
            self.judge_wrapper_result(segs, sep, out, case["width"], ii, si, case["semantic"], sub, col, "doc")
            col.hist("doc_prefix", repr(ii))


def bucket(w: int) -> str:
    if w <= 0:
        return "<=0"
    if w <= 12:
        return "1-12"
    if w <= 40:
        return "13-40"
    if w <= 100:
        return "41-100"
    return ">100"


PROP = C05()
