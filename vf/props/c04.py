"""C04 — code, tags, URLs and other non-prose spans are reproduced verbatim.

Monitors:
  spans     ordered literal-span sequences (code-block info+lines, code spans, template tags, HTML comments,
            inline HTML, URLs, destinations, titles, labels) of input and output, extracted by one extractor
            from the trees read by flowmark's own reader, must be equal for EVERY option set (typography,
            cleanups and list spacing included)
  codeblock independent of any Markdown reader: every generated code block's content lines must appear in the
            output as a contiguous run of lines (after the container prefix), between two fence lines of the same
            character that are longer than any fence-like run inside
"""
from __future__ import annotations

import re

from vf import astn, fm
from vf.core import Collector
from vf.docbase import DocProp, opts_key, rand_opts
from vf.gen_doc import gen_doc
from vf.spans import first_diff, spans


def code_blocks_of(tree: list, prefix_depth=0, out=None):
    out = out if out is not None else []
    for b in tree:
        t = b["t"]
        if t in ("fence", "icode"):
            out.append(b)
        elif t == "quote":
            code_blocks_of(b["blocks"], 0, out)
        elif t == "fndef":
            code_blocks_of(b["blocks"], 0, out)
        elif t == "list":
            for it in b["items"]:
                code_blocks_of(it, 0, out)
        elif t == "tagblock":
            code_blocks_of([b["inner"]], 0, out)
    return out


_PFX = re.compile(r"^(?:[ >]|\d+\.\s|[-*+]\s)*")


_TAG_WORD = re.compile(r"(?:\{%.*%\}|\{\{.*\}\}|\{#.*#\}|<!--.*-->)\Z", re.S)


def tag_words_of(tree) -> list[str]:
    """Every word of the generated tree that is a template tag or an HTML comment, in document order (white space
    runs collapsed). Words inside code blocks are not words of the tree (code is kept as lines)."""
    out: list[str] = []

    def walk(x, key=None):
        if isinstance(x, dict):
            if x.get("t") in ("fence", "icode"):
                return
            if x.get("t") == "tagblock":
                walk(x["open"]), walk(x["inner"]), walk(x["close"])
                return
            for k, v in x.items():
                walk(v, k)
        elif isinstance(x, (list, tuple)):
            for v in x:
                walk(v, key)
        elif isinstance(x, str) and key not in ("lines", "info", "lang") and _TAG_WORD.match(x):
            out.append(re.sub(r"\s+", " ", x))
    walk(tree)
    return out


class C04(DocProp):
    id = "C04"
    rule = ("cases: G-doc documents (profiles core, typo, tags; hostile code content: fence-like lines, prefix-like "
            "lines, blank lines, tabs, trailing spaces; code at every container nesting) x random points of the full "
            "option product including all typography options on. Non-trivial: the document contains >= 1 literal "
            "span; distinct by hash of (document seed, options).")
    assumptions = ["spans are compared after reading input and output with flowmark's own reader; code spans, tags and "
                   "inline HTML are compared modulo whitespace runs, as the property allows",
                   "trailing blank lines at the end of a code block are not generated (listed as a hostile-domain "
                   "deviation in DESIGN.md)"]
    deciding = {"spans": {"quick": 3000, "thorough": 30000}, "codeblock": {"quick": 300, "thorough": 3000}}
    profiles = ["core", "core", "typo", "tags"]

    # a lone tilde in prose before a literal that contains a tilde (the literal must win over a strikethrough)
    TILDE_TEXTS = ["It takes ~5 minutes, see `~/.config/tool` for details.\n", "About ~old text and `a~b` here.\n",
                   "Roughly ~10 items in <https://example.org/notes.txt~> today.\n", "Wait ~2h then open <a href=/home/~> now.\n"]
    # a template tag written over two source lines at the end of its paragraph
    MULTILINE_TAG_TEXTS = ["Intro text {% callout type=\"note\"\ntitle=\"Loading...please wait\" %}\n",
                           "{% field kind=\"string\"\nlabel=\"Name... it's here\" %}\n",
                           "Some words <!-- a comment...\nover two lines it's -->\n",
                           # what looks like a hard line break inside a tag written over two lines is part of the tag
                           "Intro text {% callout type=\"note\"  \ntitle=\"two words\" %} after it.\n", "See {# first line\\\nsecond line #} here.\n"]

    def cases(self, tier, seed, shard, nshards):
        for r, c in self.doc_cases(tier, seed, shard, nshards):
            c["opts"] = [rand_opts(r), rand_opts(r, force={"smartquotes": True, "ellipses": True, "cleanups": True}),
                         rand_opts(r, widths=[1, 6, 12, 0]), rand_opts(r)]
            yield c
            if r.random() < 0.15:
                t_ = r.choice(self.TILDE_TEXTS + self.MULTILINE_TAG_TEXTS)
                # ground truth that does not depend on any reader: the literals as written (white space runs collapsed)
                lits = re.findall(r"`[^`]+`|<https?://[^>]+>|<a href=[^>]+>|\{%.*?%\}|<!--.*?-->", t_, re.S)
                yield {"kind": "text", "text": t_, "literals": [re.sub(r"\s+", " ", x) for x in lits], "feats": ["literal-hazard"], "profile": "literal-hazard",
                       "opts": [rand_opts(r, widths=[0, 30, 88]), rand_opts(r, widths=[88], force={"smartquotes": True, "ellipses": True})]}

    def check(self, case, col: Collector):
        if case["kind"] == "text":
            text, feats, tree = case["text"], set(case.get("feats", [])), None
        else:
            d = gen_doc(case["seed"], case["profile"], scale=case.get("scale", 1))
            text, feats, tree = d.text, d.feats, d.tree
        self.feats_hist(col, feats)
        ref = spans(astn.tree(astn.reference_input(text)))
        blocks = code_blocks_of(tree) if tree else []
        tags = tag_words_of(tree) if tree else []
        for o in case["opts"]:
            col.case()
            out = fm.fmt(text, **o)
            sub = dict(case, opts=[o])
            if isinstance(out, fm.Raised):
                col.count("raised_cases_left_to_C12")
                continue
            col.mon("spans")
            for lit in case.get("literals", []):
                if lit not in re.sub(r"\s+", " ", out):
                    col.violation("spans", "C04/literal-not-verbatim-in-output", sub, {"literal": lit, "output": out[:300]})
                    break
            if tags:
                # ground truth from the generator (no reader involved): every tag / comment word it wrote is in the output,
                # in order, character for character up to white-space runs
                col.mon("tagwords", len(tags))
                flat, pos = re.sub(r"\s+", " ", out), 0
                for tg in tags:
                    k = flat.find(tg, pos)
                    if k < 0:
                        col.violation("spans", "C04/generated-tag-not-verbatim-in-output" + ("" if tg in flat else "/absent"), sub,
                                      {"tag": tg[:200], "output": out[:300]})
                        break
                    pos = k + len(tg)
            got = spans(astn.tree(out))
            if ref:
                col.distinct(case.get("seed", text), opts_key(o))
            for s_ in set(x[0] for x in ref):
                col.hist("span_kinds", s_)
            if got != ref:
                df = first_diff(ref, got)
                kind = (df[1] or df[2])[0]
                typo = "+typo" if (o["smartquotes"] or o["ellipses"]) else ""
                col.violation("spans", f"C04/span-changed/{kind}{typo}", sub,
                              {"index": df[0], "input_span": repr(df[1])[:300], "output_span": repr(df[2])[:300]})
            if blocks:
                self.check_code_blocks(blocks, got, sub, col)
                # info strings, from the generator's tree and the output text alone (flowmark's reader returns the language
                # word with its backslash escapes already removed, so a comparison of two readings cannot see them go)
                pos = 0
                for b in blocks:
                    if b["t"] == "fence" and b["info"]:
                        col.mon("codeblock-info")
                        # (whichever fence character the output uses: re-spelling tilde fences as backtick fences is not forbidden)
                        m = re.compile(r"(?m)^[ >\-*+\d.)]*(?:`{3,}|~{3,})" + re.escape(b["info"]) + "$").search(out, pos)
                        if not m:
                            col.violation("codeblock", "C04/codeblock/info-string-not-verbatim", sub, {"info": b["info"], "output": out[:300]})
                            break
                        pos = m.end()
        if col.evaluations % 301 == 0:
            col.sample({"seed": case.get("seed"), "profile": case.get("profile"), "spans_head": [list(map(str, x))[:3] for x in ref[:6]]})

    def check_code_blocks(self, blocks, got_spans, sub, col):
        """Ground truth from the generator's tree (not from any reading of the input): the code blocks the
        output contains, in order, must have exactly the generated lines."""
        got = [(x[1], x[2] if len(x) > 2 else None) for x in got_spans if x[0] == "codeblock-body"]
        norm = lambda L: [x.rstrip() if not x.strip() else x for x in L]  # noqa: E731  blank lines carry no payload
        want = [norm([ln.rstrip("\n") for ln in b["lines"]]) for b in blocks]
        col.mon("codeblock", len(want))
        if len(got) != len(want):
            col.violation("codeblock", "C04/codeblock/count", sub, {"want_blocks": len(want), "got_blocks": len(got)})
            return
        for w, (g, nlines) in zip(want, got):
            gl = norm(g.split("\n")) if (g != "" or nlines) else []
            if gl != w:
                col.violation("codeblock", "C04/codeblock/lines-differ", sub, {"want": w[:8], "got": gl[:8]})
                return


PROP = C04()
