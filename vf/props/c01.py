"""C01 — formatting preserves the meaning of the document.

Monitors:
  treeA     oracle A: normalised tree of (documented reading of) the input == tree of the output,
            both read with flowmark's own reader (flowmark_markdown().parse)
  treeB     oracle B: markdown-it-py token streams of input and output compared with each other
            (only for documents whose features both readers read alike)
  linestart oracle C: hazard paragraphs (block-syntax look-alike words at every position) inside real
            containers, formatted at narrow widths; every emitted continuation line is classified by a
            CommonMark block-start recogniser written for the harness, and the document trees compared
"""
from __future__ import annotations

import re

from vf import astn, fm, mdit
from vf.blockstart import classify
from vf.core import Collector, Prop, shard_rng
from vf.gen_doc import gen_doc
from vf.gen_para import HAZ_ESCAPED, HAZ_UNESCAPED, plain_word, SENT_END

B_EXCLUDED = {"fndef", "fnref", "alert", "inline-tag", "inline-html", "tag-block", "tasklist", "cjk"}
SENT_END_RE = re.compile(r"[A-Za-zÀ-ÿ]{2,}([.?!]['\"’”)]?|['\"’”)][.?!])$")

CONTAINERS = [("", ""), ("- ", "  "), ("1. ", "   "), ("> ", "> "), ("> - ", ">   "), ("- > ", "  > "),
              ("[^n]: ", "    "), ("10. ", "    ")]


def kind_of(x) -> str:
    if isinstance(x, tuple) and x and isinstance(x[0], str):
        return x[0]
    if isinstance(x, (bool, int)) or x is None:
        return repr(x)
    return type(x).__name__


class C01(Prop):
    id = "C01"
    rule = ("cases: (a) G-doc documents (tree + layout PRNG; profiles core, tags, typo) formatted under several "
            "(width, mode) option sets with cleanups/typography off and list_spacing=preserve; (b) hazard "
            "paragraphs: plain words mixed with block-syntax look-alikes (- + * 1. # > --- === ``` ~~~ | ...) "
            "inside real containers at widths 1..40 in both modes. Non-trivial: the output wraps some paragraph "
            "onto >= 2 lines (doc) / the paragraph contains a hazard token not in first position (hazard); "
            "distinct by hash of (seed/profile/options) resp. (text/container/options).")
    assumptions = ["oracle A reads input and output with the same reader flowmark uses (marko + GFM + footnotes, HTML "
                   "blocks off); oracle B adds markdown-it-py as an independent CommonMark reader on documents both "
                   "read alike",
                   "the input is read the way flowmark documents it: frontmatter removed, dedent + strip, a blank line "
                   "assumed between an unindented tag-only line and an adjacent list/table line"]
    deciding = {"treeA": {"quick": 2000, "thorough": 20000}, "linestart": {"quick": 3000, "thorough": 30000}}
    soft_timeout = 30.0

    def cases(self, tier, seed, shard, nshards):
        r = shard_rng(seed, self.id, shard)
        nd = 90 if tier == "quick" else 900
        for i in range(nd):
            prof = r.choice(["core", "core", "core", "tags", "typo"])
            opts = [[88, False], [88, True], [r.randint(20, 60), r.random() < 0.5], [r.randint(6, 20), r.random() < 0.5],
                    [r.choice([0, -1, 10 ** 6]), r.random() < 0.5]]
            c = {"kind": "doc", "seed": r.getrandbits(40), "profile": prof, "opts": opts}
            if i % 10 == 7:
                c["scale"] = 8 if i % 20 == 7 else 3  # sizes small random cases never reach (vf/gen_doc.py, scale)
            yield c
        for i in range(6 if tier == "quick" else 60):
            tag_o, tag_c = r.choice([("{% field %}", "{% /field %}"), ("{# a #}", "{# /a #}"), ("<!-- f -->", "<!-- /f -->")])
            num = r.choice(["1999", "7", "12", "1"])
            a = " ".join(plain_word(r, 8) for _ in range(r.randint(2, 6)))
            b = " ".join(plain_word(r, 8) for _ in range(r.randint(1, 5)))
            yield {"kind": "tagnum", "text": f"{tag_o}\nSome {a} okay.\n{num}\\. {b} why?\n{tag_c}\n",
                   "opts": [[88, False], [88, True], [r.randint(20, 60), r.random() < 0.5]]}
        nh = 500 if tier == "quick" else 5000
        for i in range(nh):
            n = r.randint(3, 14)
            words = [plain_word(r, 9) for _ in range(n)]
            pool = r.choice([HAZ_ESCAPED, HAZ_UNESCAPED, HAZ_ESCAPED + HAZ_UNESCAPED])
            for _ in range(r.randint(1, 3)):
                words[r.randint(1, n - 1)] = r.choice(pool)
            if r.random() < 0.25:
                # atomic constructs carrying marker words inside: must never be cut or escaped inside
                words = [w for w in words if "`" not in w]  # unbalanced backtick hazards re-pair spans: hostile
                while len(words) < 3:
                    words.append(plain_word(r, 9))
                n = len(words)
                words[r.randint(1, n - 1)] = r.choice(["`` `a - b ``", "`` 1. `x` # y ``", "`a - b`", "[a - b](http://x.y/1.z)",
                                                       "{% t - 1. # %}", "{{ - 1. }}", "`> + #`"])
            if r.random() < 0.4:
                words[r.randint(0, n - 2)] = r.choice(SENT_END)
            # two fence look-alikes in one paragraph pair up as the delimiters of a code span (and a sentence end between them is
            # the listed finding KF-C06-semantic-sentence-inside-unit): one per paragraph
            seen_bt = False
            for k_, w_ in enumerate(words):
                if "`" in w_ and not (w_.startswith("`") and w_.endswith("`") and len(w_) > 2 and w_.count("`") % 2 == 0):
                    if seen_bt:
                        words[k_] = "word"
                    seen_bt = True
            if not words[0][:1].isalpha():
                words[0] = "Start"
            ii, si = r.choice(CONTAINERS)
            yield {"kind": "hazard", "words": words, "ii": ii, "si": si,
                   "opts": [[r.randint(1, 12), False], [r.randint(1, 12), True], [r.randint(10, 40), r.random() < 0.5]]}

    def check(self, case, col: Collector):
        getattr(self, "_check_" + case["kind"])(case, col)

    # ------------------------------------------------------------------ escaped ordered marker in a paragraph with tag lines
    def _check_tagnum(self, case, col):
        """Sub-workload for the listed finding KF-C01-escaped-number-in-tag-paragraph (the G-doc generator keeps escaped
        ordered markers out of paragraphs that carry tags)."""
        text = case["text"]
        ref = astn.tree(astn.reference_input(text))
        for (w, sem) in case["opts"]:
            col.case()
            col.mon("treeA")
            mode = "semantic" if sem else "fill"
            out = fm.fmt(text, width=w, semantic=sem)
            if isinstance(out, fm.Raised):
                col.count("raised_cases_left_to_C12")
                continue
            col.count("tagnum_cases")
            got = astn.tree(out)
            if got != ref:
                df = astn.first_diff(ref, got)
                # the mechanism, checked: the escape the source had at the start of a continuation line is gone, that line now
                # looks like a list item, and a blank line was put between it and the tag line next to it
                m = re.search(r"(?m)^(\d+)\\\.", text)
                lines = out.split("\n")
                mech = bool(m) and any(re.match(rf"{m.group(1)}\.( |$)", ln) for ln in lines) and "" in lines[:-1]  # the input has no blank line
                desc = (f"C01/tag-paragraph/escaped-number-at-line-start-read-as-list-item/{mode}" if mech else
                        f"C01/tree/tagnum/{kind_of(df[1])}->{kind_of(df[2])}/{mode}")
                col.violation("treeA", desc, dict(case, opts=[[w, sem]]), {"output": out[:300], "path": list(df[0])})

    def _check_text(self, case, col):
        """An explicit document (witnesses of repaired defects)."""
        self.judge_document(case["text"], case.get("feats", []), "text", case["opts"], case, col)

    # ------------------------------------------------------------------ documents
    def _check_doc(self, case, col):
        d = gen_doc(case["seed"], case["profile"], layout_seed=case.get("layout_seed"), scale=case.get("scale", 1))
        self.judge_document(d.text, d.feats, case["profile"], case["opts"], case, col)

    def judge_document(self, text, feats, profile, opts, case, col):
        ref_text = astn.reference_input(text)
        ref = astn.tree(ref_text)
        b_ok = mdit.AVAILABLE and not (set(feats) & B_EXCLUDED)
        ref_b = mdit.tokens(ref_text) if b_ok else None
        if b_ok and mdit.skeleton(ref_text) != mdit.skeleton_of_tree(ref):
            # the two readers already disagree on the block structure of the INPUT (dialect difference, e.g. a setext
            # heading whose text contains an escaped pipe is a table for markdown-it): oracle B has no common ground
            b_ok = False
            col.count("oracleB_skipped_readers_disagree_on_input")
        if b_ok and re.search(r"(?<![~\\])~(?!~)", ref_text):
            # GFM reads one tilde as a strikethrough delimiter (flowmark's reader does, and writes it back as '~~');
            # markdown-it only knows '~~': the same kind of dialect difference, at the inline level
            b_ok = False
            col.count("oracleB_skipped_single_tilde_dialect")
        for f in feats:
            col.hist("features", f)
        for (w, sem) in opts:
            col.case()
            mode = "semantic" if sem else "fill"
            out = fm.fmt(text, width=w, semantic=sem)
            sub = dict(case, opts=[[w, sem]])
            if isinstance(out, fm.Raised):
                col.count("raised_cases_left_to_C12")
                continue
            col.mon("treeA")
            got = astn.tree(out)
            if got != ref:
                df = astn.first_diff(ref, got)
                desc = f"C01/tree/{profile}/{kind_of(df[1])}->{kind_of(df[2])}/{mode}"
                col.violation("treeA", desc, sub, {"path": list(df[0]), "input_node": repr(df[1])[:400],
                                                   "output_node": repr(df[2])[:400]})
            elif b_ok:
                col.mon("treeB")
                gb = mdit.tokens(out)
                if gb != ref_b:
                    df = mdit.first_diff(ref_b, gb)
                    desc = f"C01/treeB/{profile}/{kind_of(df[1])}->{kind_of(df[2])}/{mode}"
                    col.violation("treeB", desc, sub, {"index": df[0], "input_tok": repr(df[1])[:400],
                                                       "output_tok": repr(df[2])[:400]})
            col.hist("width", "<=0" if w <= 0 else ("1-20" if w <= 20 else ("21-60" if w <= 60 else ">60")))
            col.hist("mode", mode)
            if out.count("\n") > text.count("\n\n") + 2 or w <= 0:
                col.distinct("doc", case.get("seed"), profile, w, sem)
        if col.evaluations % 211 == 0:
            col.sample({"kind": "doc", "seed": case.get("seed"), "profile": profile, "features": sorted(feats),
                        "input_head": text[:300]})

    def _check_text(self, case, col):
        self.judge_document(case["text"], set(case.get("feats", [])), "text", case["opts"], case, col)

    # ------------------------------------------------------------------ hazards
    def _check_hazard(self, case, col):
        words, ii, si = case["words"], case["ii"], case["si"]
        text = ii + " ".join(words) + "\n"
        ref = astn.tree(astn.reference_input(text))
        for (w, sem) in case["opts"]:
            col.case()
            col.mon("linestart")
            mode = "semantic" if sem else "fill"
            out = fm.fmt(text, width=w, semantic=sem)
            sub = dict(case, opts=[[w, sem]])
            if isinstance(out, fm.Raised):
                col.count("raised_cases_left_to_C12")
                continue
            col.distinct("hazard", text, w, sem)
            got = astn.tree(out)
            lines = out.rstrip("\n").split("\n")
            # classify every continuation line of the paragraph
            hit = None
            for i, ln in enumerate(lines[1:], 1):
                body = ln[len(si):] if ln.startswith(si) else ln.lstrip()
                cls = classify(body)
                if cls:
                    prev = lines[i - 1].rstrip()
                    where = "wrap"
                    if prev.endswith("\\"):
                        where = "after-hardbreak"
                    elif sem and SENT_END_RE.search(prev.split(" ")[-1] if prev else ""):
                        where = "sentence-start"
                    hit = (cls, where, body[:40])
                    break
            col.hist("hazard_words", " ".join(sorted(set(x for x in words if not x[:1].isalnum())))[:40])
            if got != ref:
                df = astn.first_diff(ref, got)
                if hit:
                    desc = f"C01/linestart/{hit[0]}/{mode}-{hit[1]}"
                else:
                    last = lines[0].rstrip() if lines else ""
                    if any(l.rstrip().endswith("\\") and not l.rstrip().endswith("\\\\") for l in lines[:-1]):
                        desc = f"C01/lone-backslash-becomes-hardbreak/{mode}"
                    elif any("|" in a and b[len(si):].lstrip()[:1] in "-:" for a, b in zip(lines, lines[1:]) if b.strip()):
                        desc = f"C01/linestart/table-delimiter/{mode}"
                    else:
                        desc = f"C01/tree/hazard/{kind_of(df[1])}->{kind_of(df[2])}/{mode}"
                col.violation("linestart", desc, sub, {"output": out[:300], "line": hit[2] if hit else None,
                                                       "path": list(df[0])})
            if col.evaluations % 397 == 0:
                col.sample({"kind": "hazard", "input": text, "width": w, "semantic": sem, "output": out[:200]})


PROP = C01()
