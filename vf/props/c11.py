"""C11 — semantic line breaks fall at sentence ends and keep edits local.

Monitors:
  placement  on results of the public line_wrap_by_sentence() wrapper and of reformat_text(semantic=True):
             (a) every line break is after a sentence-end word or forced by the width;
             (b) every sentence-end word that is not last on its line has fewer than min_line_len (20)
                 characters before/with it on that line.
             Sentence ends are recognised by a detector written for the harness from the documented rule
             (>= 2 letters, last one lowercase, then . ? ! optionally with a quote / parenthesis).
  locality   histories (p, p'): p' = p with one sentence edited (words inserted / deleted / replaced, sentence
             ends untouched). Lines before the previous sentence's last line are byte-identical, and so are
             all lines after the first sentence at or after the edit that ends a line of >= 20 characters
             in both outputs.
"""
from __future__ import annotations

import re

from vf import fm
from vf.core import Collector, Prop, shard_rng

MIN_LINE = 20
_TAG_FIRST = re.compile(r"(?:\{%.*?%\}|\{\{.*?\}\}|\{#.*?#\}|<!--.*?-->)+\S*")
_END = re.compile(r"(?:^|[^\w]|_)([^\W\d_]+)([.?!]['\"’”)]?|['\"’”)][.?!])$")
PLAIN = ["a", "to", "the", "word", "longer", "sentence", "alpha", "beta", "gamma", "delta,", "x", "verylongwordhere",
         "(note", "this)", "and", "or", "naïve", "café", "2024", "3.14", "e.g.", "U.S.", "Mr.", "x.", "OK.", "A.", "it's",
         "“quoted”", "state-of-the-art", "semi;", "colon:", "`code`", "[link](http://x.y)", "**bold**", "$5", "US$7", "A$9", "$12"]
ENDS = ["end.", "stop!", "why?", "done.)", 'said."', "fine.", "okay.", "there?", "yes!", "it.", "so.'", "here.’", "now.”", "été.",
        # sentence ends by the documented rule (two letters or more, the last one lowercase, a period), whatever else they are
        "etc.", "vs.", "approx.", "cf.", "viz.", "resp.", "incl.", "Inc.", "Ltd.", "et al.".split()[-1]]
CONTAINERS = [("", ""), ("- ", "  "), ("> ", "> "), ("1. ", "   "), ("> - ", ">   ")]
# task-list items: the checkbox is part of the paragraph's first line (it counts towards the 20 characters of clause (b))
TASK_CONTAINERS = [("- ", "  "), ("1. ", "   "), ("> - ", ">   ")]


def is_sentence_end(word: str) -> bool:
    m = _END.search(word)
    if not m:
        return False
    letters = m.group(1)
    return len(letters) >= 2 and letters[-1].islower()


def sentence(r, maxw=12):
    n = r.randint(1, maxw)
    ws = []
    for _ in range(n - 1):
        w = r.choice(PLAIN)
        if is_sentence_end(w):
            w = "word"
        ws.append(w)
    ws.append(r.choice(ENDS))
    return ws


class C11(Prop):
    id = "C11"
    rule = ("cases: paragraphs of 2..6 generated sentences (plain words, abbreviations that are not sentence ends, "
            "code/link/bold tokens, seven kinds of sentence-end words incl. curly quotes) at widths 25..100 in 5 container "
            "contexts, through line_wrap_by_sentence() and through reformat_text(semantic=True) [placement]; and pairs "
            "(p, p') differing by a single-sentence edit [locality]. Non-trivial: the output has >= 2 lines / the edit "
            "changes the output; distinct by hash of (paragraph, width, container[, edit]).")
    assumptions = ["sentence ends are decided by the harness's own detector written from the documented heuristic; a word it "
                   "accepts but flowmark does not (or vice versa) shows up as a violation of clause (b) or (a)",
                   "the locality clause is read in its weakest form: sentence m counts only if it ends a line of >= 20 "
                   "characters in BOTH outputs"]
    deciding = {"placement": {"quick": 6000, "thorough": 60000}, "locality": {"quick": 4000, "thorough": 40000}}

    def cases(self, tier, seed, shard, nshards):
        r = shard_rng(seed, self.id, shard)
        n = 400 if tier == "quick" else 4000
        for _ in range(n):
            S = [sentence(r) for _ in range(r.randint(2, 6))]
            ii, si = r.choice(CONTAINERS)
            c = {"kind": "placement", "sentences": S, "width": r.choice([25, 30, 40, 60, 72, 88, 100, r.randint(25, 100)]),
                 "ii": ii, "si": si}
            if r.random() < 0.15:
                ti, ts = r.choice(TASK_CONTAINERS)
                c = dict(c, ii=ti, si=ts, sentences=[[r.choice(["[ ]", "[x]"])] + list(S[0])] + [list(x) for x in S[1:]], task=True)
            if r.random() < 0.2:
                c["min_line"] = r.choice([0, 8, 12, 30, 45])  # the minimum line length is a parameter of the public wrapper
            if r.random() < 0.3:
                # other white space than one blank between words (a tab, an em space, an ideographic space, two blanks)
                nw = sum(len(x) for x in S)
                c["seps"] = [r.choice([" ", " ", " ", "\t", "\u2003", "\u3000", "  "]) for _ in range(nw)]
            yield c
            if r.random() < 0.35:
                yield self.doc_case(r)
            j = r.randrange(len(S))
            body = list(S[j][:-1])
            op = r.choice(["ins", "del", "rep"])
            new = r.choice([w for w in PLAIN if not is_sentence_end(w)])
            if op == "ins" or not body:
                body.insert(r.randint(0, len(body)), new)
            elif op == "del":
                body.pop(r.randrange(len(body)))
            else:
                body[r.randrange(len(body))] = new
            S2 = [list(s) for s in S]
            S2[j] = body + [S[j][-1]]
            yield {"kind": "locality", "sentences": S, "edited": S2, "j": j, "width": r.choice([25, 30, 40, 60, 88, r.randint(25, 100)]),
                   "ii": ii, "si": si}

    @staticmethod
    def doc_case(r):
        pool = [sentence(r, 14) for _ in range(r.randint(2, 4))]
        kinds = [("", ""), ("", "")] + r.sample([("- ", "  "), ("> ", "> "), ("1. ", "   "), ("10. ", "    "), ("  - ", "    ")], r.randint(1, 3))
        r.shuffle(kinds)
        blocks = []
        for ii, si in kinds:
            if ii == "  - ":
                ii, si, lead_src = "  - ", "    ", "- Outer item here.\n\n"
            else:
                lead_src = ""
            words = []
            if r.random() < 0.5:
                words += [r.choice(["Ok.", "Yes.", "No.", "So.", "Well then."])][0].split()
            for _ in range(r.randint(1, 3)):
                words += list(r.choice(pool))
            if r.random() < 0.4 and len(words) > 4:
                # an inline tag / comment in the middle of the text, never next to a source line break
                k = r.randint(2, len(words) - 2)
                first_tag = r.choice(["{% x %}", "{{ v }}", "<!-- c -->", "{# n #}", "{% icon /%}"])
                words.insert(k, first_tag)
                if r.random() < 0.5 and len(words) > k + 3:
                    # ... and later an adjacent open/close pair of the same kind on the same (non-first) output line
                    pair = {"{%": "{% field %}{% /field %}", "{{": "{{ a }}{{ /a }}", "<!": "<!-- f --><!-- /f -->", "{#": "{# a #}{# /a #}"}[first_tag[:2]]
                    words.insert(r.randint(k + 2, len(words) - 1), pair)
            top = ii == "" and not lead_src
            if top and r.random() < 0.4 and len(words) > 5:
                # a word that looks like a list marker or table row (inside a paragraph it is just a word)
                words[r.randint(2, len(words) - 2)] = r.choice(["2)", "2019.", "|", "7."])
            # source layout: soft line breaks at random word gaps (not next to a tag; a marker-like word may start a line
            # only at top level)
            src, cur = [], [words[0]]
            for a, w in zip(words, words[1:]):
                tagish = lambda x: x[:2] in ("{%", "{{", "{#", "<!") or x[-2:] in ("%}", "}}", "#}", "->")  # noqa: E731
                markerish = not w[:1].isalpha()
                if r.random() < 0.2 and not tagish(a) and not tagish(w) and (not markerish or (top and w in ("2)", "2019.", "|", "7."))):
                    src.append(" ".join(cur))
                    cur = [w]
                else:
                    cur.append(w)
            src.append(" ".join(cur))
            pfx_first = ii if not lead_src else "  - "
            text = lead_src + "\n".join((pfx_first if i == 0 else si) + ln for i, ln in enumerate(src))
            blocks.append({"ii": ii, "si": si, "words": words, "src": text, "lead": bool(lead_src)})
        return {"kind": "docplacement", "blocks": blocks, "width": r.choice([30, 40, 60, 72, 88, r.randint(25, 100)])}

    def check(self, case, col: Collector):
        getattr(self, "_check_" + case["kind"])(case, col)

    # -------------------------------------------------------------------------------- whole documents
    def _check_docplacement(self, case, col):
        """Several paragraphs in different containers in ONE document (one wrapper instance serves them all), sentences
        repeated between them, multi-line sources, inline tags that are never next to a source newline."""
        width = case["width"]
        text = "\n\n".join(b["src"] for b in case["blocks"]) + "\n"
        out = fm.fmt(text, width=width, semantic=True)
        if not isinstance(out, str):
            col.count("raised_cases_left_to_C12")
            return
        paras = [p for p in re.split(r"\n(?:[ >]*\n)+", out.rstrip("\n")) if p.strip(" >\n")]
        expected = [x for b in case["blocks"] for x in ([None, b] if b.get("lead") else [b])]  # None: the outer item's own paragraph
        if len(paras) != len(expected):
            col.count("docplacement_skipped_block_count_differs")
            return
        for b, ptxt in zip(expected, paras):
            if b is None:
                continue
            col.case()
            col.mon("placement")
            ii, si = b["ii"], b["si"]
            lines = ptxt.split("\n")
            if not lines[0].startswith(ii) or not all(ln.startswith(si) for ln in lines[1:]):
                col.count("docplacement_skipped_prefix_differs")
                continue
            body = [lines[0][len(ii):]] + [ln[len(si):] for ln in lines[1:]]
            # (compared without white space: a break inside an adjacent tag pair is judged below like any other break)
            if "".join(" ".join(body).replace("\\", "").split()) != "".join(" ".join(b["words"]).replace("\\", "").split()):
                col.count("placement_skipped_text_not_reproduced")
                continue
            if len(body) >= 2:
                col.distinct("docplacement", ptxt, width)
            col.count("docplacement_paragraphs_judged")
            self.judge_body(body, width, ii, si, dict(case, via="reformat_text/document", block=b["src"][:80]), col)

    # --------------------------------------------------------------------------------
    def run_both(self, words, width, ii, si, seps=None, min_line=None):
        """-> [(via, lines without indents)]. seps: white space written between consecutive words (default one blank each)."""
        text = " ".join(words) if not seps else "".join(w + (seps[i] if i < len(seps) else "") for i, w in enumerate(words)).rstrip()
        out = []
        wrapper = fm.call(fm.line_wrap_by_sentence, width=width, is_markdown=True, **({} if min_line is None else {"min_line_len": min_line}))
        if min_line is not None and min_line != MIN_LINE:
            # only the wrapper factory takes the parameter; reformat_text always uses the default
            if isinstance(wrapper, fm.Raised):
                return out
            res = fm.call(wrapper, text, ii, si)
            if isinstance(res, str):
                lines = res.split("\n")
                out.append(("wrapper", [lines[0][len(ii):]] + [ln[len(si):] if ln.startswith(si) else ln for ln in lines[1:]]))
            return out
        if not isinstance(wrapper, fm.Raised):
            res = fm.call(wrapper, text, ii, si)
            if isinstance(res, str):
                lines = res.split("\n")
                out.append(("wrapper", [lines[0][len(ii):]] + [ln[len(si):] if ln.startswith(si) else ln for ln in lines[1:]]))
        doc = fm.fmt(ii + text + "\n", width=width, semantic=True)
        if isinstance(doc, str):
            lines = doc.rstrip("\n").split("\n")
            out.append(("reformat_text", [lines[0][len(ii):] if lines[0].startswith(ii) else lines[0]] +
                        [ln[len(si):] if ln.startswith(si) else ln for ln in lines[1:]]))
        return out

    def _check_placement(self, case, col):
        words = [w for s in case["sentences"] for w in s]
        width, ii, si = case["width"], case["ii"], case["si"]
        ml = case.get("min_line")
        for via, body in self.run_both(words, width, ii, si, case.get("seps"), ml):
            col.case()
            col.mon("placement")
            if ml is not None:
                col.hist("min_line_len", ml)
            if " ".join(body).split() != " ".join(words).replace("\\", "\\").split() and \
                    [w.lstrip("\\") for w in " ".join(body).split()] != [w.lstrip("\\") for w in words]:
                col.count("placement_skipped_text_not_reproduced")
                continue
            if len(body) >= 2:
                col.distinct("placement", via, " ".join(words), width, ii)
            col.hist("width", width // 20 * 20)
            self.judge_body(body, width, ii, si, dict(case, via=via), col, min_line=ml if ml is not None else MIN_LINE)

    def judge_body(self, body, width, ii, si, sub, col, kept_breaks=(), min_line=MIN_LINE):
        """Clauses (a) and (b) on the lines of one output paragraph (indents already removed). kept_breaks: indices i such that the
        break after line i is one the statement exempts (tag-adjacent newline / hard break)."""
        if True:
            case = sub
            for i, ln in enumerate(body):
                ws = ln.split(" ")
                ind = len(ii) if i == 0 else len(si)
                # (b) a sentence end inside the line only while the line is still short
                acc = 0
                for k, w in enumerate(ws[:-1]):
                    acc += len(w) + (1 if k else 0)
                    if is_sentence_end(w) and acc >= min_line:
                        col.violation("placement", "C11/placement/sentence-end-not-followed-by-break", sub,
                                      {"line": ln, "word": w, "chars_so_far": acc})
                        break
                # (a) break after line i: sentence end or forced
                if i < len(body) - 1 and i not in kept_breaks:
                    nxt = body[i + 1].split(" ")[0]
                    mt = _TAG_FIRST.match(body[i + 1])
                    if mt:
                        nxt = mt.group(0)  # a template tag / comment is one unbreakable word
                    if is_sentence_end(ws[-1]):
                        continue
                    if ind + len(ln) + 1 + len(nxt.lstrip("\\")) > width:
                        continue
                    desc = "C11/placement/unforced-break-not-at-sentence-end"
                    # listed mechanism: the sentence started behind a short previous line that it could not be
                    # merged into, and its first line stays wrapped as if it still started there
                    # (exact signature: the line fits behind the short line without the joining space, but not
                    # with it: len(prev) + len(line) == width, which is only possible with an empty indent)
                    if i >= 1 and len(body[i - 1]) < min_line and is_sentence_end(body[i - 1].split(" ")[-1]) \
                            and len(body[i - 1]) + len(ln) == width - (len(ii) if i - 1 == 0 else len(si)):
                        desc = "C11/placement/unforced-break/first-line-after-failed-short-line-merge"
                    col.violation("placement", desc, sub, {"line": ln, "next_word": nxt, "width": width, "indent": ind,
                                                                            "prev_line": body[i - 1] if i else None})
                    break

    # --------------------------------------------------------------------------------
    def _check_locality(self, case, col):
        S, S2, j = case["sentences"], case["edited"], case["j"]
        width, ii, si = case["width"], case["ii"], case["si"]
        w1 = [w for s in S for w in s]
        w2 = [w for s in S2 for w in s]
        r1 = dict(self.run_both(w1, width, ii, si))
        r2 = dict(self.run_both(w2, width, ii, si))
        for via in r1:
            if via not in r2:
                continue
            col.case()
            b1, b2 = r1[via], r2[via]
            if [w.lstrip("\\") for w in " ".join(b1).split()] != [w.lstrip("\\") for w in w1] or \
                    [w.lstrip("\\") for w in " ".join(b2).split()] != [w.lstrip("\\") for w in w2]:
                col.count("locality_skipped_text_not_reproduced")
                continue
            col.mon("locality")
            if b1 != b2:
                col.distinct("locality", via, " ".join(w1), " ".join(w2), width, ii)

            def line_of_word(lines):
                m = []
                for li, ln in enumerate(lines):
                    m += [li] * len(ln.split())
                return m

            def ends(SS):
                e, c = [], 0
                for s in SS:
                    c += len(s)
                    e.append(c - 1)
                return e
            m1, m2 = line_of_word(b1), line_of_word(b2)
            e1, e2 = ends(S), ends(S2)
            if j >= 1:
                p1, p2 = m1[e1[j - 1]], m2[e2[j - 1]]
                if b1[:p1] != b2[:p2]:
                    col.violation("locality", "C11/locality/lines-before-previous-sentence-changed", dict(case, via=via),
                                  {"before": b1[:p1][-3:], "after": b2[:p2][-3:]})
                    continue
            judged = False
            for m in range(j, len(S)):
                l1, l2 = m1[e1[m]], m2[e2[m]]
                last1 = (e1[m] + 1 == len(m1)) or m1[e1[m] + 1] != l1
                last2 = (e2[m] + 1 == len(m2)) or m2[e2[m] + 1] != l2
                if last1 and last2 and len(b1[l1]) >= MIN_LINE and len(b2[l2]) >= MIN_LINE:
                    judged = True
                    if b1[l1 + 1:] != b2[l2 + 1:]:
                        col.violation("locality", "C11/locality/lines-after-resynchronising-sentence-changed", dict(case, via=via),
                                      {"sentence": m, "before": b1[l1 + 1:][:3], "after": b2[l2 + 1:][:3]})
                    break
            col.count("locality_suffix_clause_judged" if judged else "locality_suffix_clause_vacuous")


PROP = C11()
