"""C02 — formatting is idempotent: reformat_text(reformat_text(x, o), o) == reformat_text(x, o).

Monitors:
  text-idem   reformat_text twice over G-doc documents x the full option product (random points),
              Markdown and plaintext
  cli-idem    the real CLI entry point (flowmark.cli.main, in-process) run twice with --inplace on a file
"""
from __future__ import annotations

import contextlib
import io
import os
import shutil
import tempfile

from vf import astn, fm
from vf.core import Collector
from vf.docbase import DocProp, ellipsis_mechanism, first_line_diff, line_kind, opts_key, rand_opts


import re

_TAG = re.compile(r"\{%.*?%\}|\{\{.*?\}\}|\{#.*?#\}|<!--.*?-->", re.S)


def tag_boundaries(text: str) -> list:
    """For every template tag / HTML comment outside code: is there a newline directly before / after it
    (ignoring indentation and quote markers)? A change of this list means a pass created or removed a
    tag-adjacent newline, the one layout flowmark declares significant."""
    out = []
    for m in _TAG.finditer(text):
        before = text[:m.start()].rsplit("\n", 1)[-1]
        after = text[m.end():].split("\n", 1)[0]
        out.append((m.group(0).split()[0][:3], before.strip(" >\t") == "", after.strip() == ""))
    return out


_PFX_RE = re.compile(r"(?m)^[ >]+")
_LINE_START_ESC = re.compile(r"\\(?=[-+*>#=|~`_])|(?<![\w\\])(\d+)\\(?=[.)])")


def _strip_layout(t: str) -> str:
    """Text without container prefixes, white space and the backslashes that protect a marker word (written when the word
    started a line on some pass; kept for good by the renderer, see KF-C03-sticky-escape)."""
    return re.sub(r"\s+", "", _LINE_START_ESC.sub(lambda m: m.group(1) or "", _PFX_RE.sub("", t)))


class C02(DocProp):
    id = "C02"
    rule = ("cases: G-doc documents (profiles core, typo, tags) and plain paragraphs, each formatted under random points "
            "of the option product {width incl. <=0 and small} x {semantic} x {cleanups, smartquotes, ellipses} x "
            "{preserve, loose, tight} x {markdown, plaintext}; pass 2 is compared byte for byte with pass 1. Non-trivial: "
            "pass 1 changed the input (x != f(x)); distinct by hash of (document, options).")
    assumptions = ["documents come from the core domain of G-doc; constructs whose first pass already changes the "
                   "document structure (C01 findings) are not part of this workload"]
    deciding = {"text-idem": {"quick": 3000, "thorough": 30000}, "cli-idem": 10}
    profiles = ["core", "core", "typo", "tags"]

    def cases(self, tier, seed, shard, nshards):
        from vf.gen_para import HAZ_ESCAPED, HAZ_UNESCAPED, plain_word
        from vf.props.c01 import CONTAINERS

        for r, c in self.doc_cases(tier, seed, shard, nshards):
            c["opts"] = [rand_opts(r, plaintext_p=0.1) for _ in range(4)]
            if r.random() < 0.08:
                c["cli"] = True
            yield c
            # a hazard paragraph: block-syntax look-alike words that get escaped when they start a line
            for _ in range(3):
                n = r.randint(4, 16)
                words = [plain_word(r, 9) for _ in range(n)]
                for _ in range(r.randint(1, 3)):
                    words[r.randint(1, n - 1)] = r.choice(HAZ_ESCAPED + [w for w in HAZ_UNESCAPED if w not in ("\\", "|")])
                if not words[0][:1].isalpha():
                    words[0] = "Start"
                bt = [k_ for k_, w_ in enumerate(words) if "`" in w_]
                for k_ in bt[1:]:
                    words[k_] = "word"  # (two fence look-alikes would pair up as a code span)
                ii, _si = r.choice(CONTAINERS)
                yield {"kind": "text", "text": ii + " ".join(words) + "\n", "feats": ["hazard"], "profile": "hazard",
                       "opts": [rand_opts(r, widths=[r.randint(4, 30), r.randint(10, 70)], force={"semantic": False}),
                                rand_opts(r, widths=[r.randint(4, 30), r.randint(10, 70)], force={"semantic": False})]}
            # dot runs followed by an opening bracket / quote at every possible wrap position (typography on)
            n = r.randint(4, 12)
            words = [plain_word(r, 7) for _ in range(n)]
            for _ in range(r.randint(1, 2)):
                k = r.randint(0, n - 2)
                words[k] = r.choice(["wait...", "so...", "hmm....", "end...\""])
                words[k + 1] = r.choice(["(paren)", "[x]", "\"quoted\"", "*em*", "`code`", "word", "—dash"])
            if not words[0][:1].isalpha():
                words[0] = "Start"
            yield {"kind": "text", "text": " ".join(words) + "\n", "feats": ["typo-hazard"], "profile": "typo-hazard",
                   "opts": [rand_opts(r, widths=[r.randint(6, 40)], force={"ellipses": True, "smartquotes": False}),
                            rand_opts(r, widths=[r.randint(6, 40)], force={"ellipses": True, "smartquotes": r.random() < 0.5})]}
            # unusual Unicode spaces at word edges (they count as white space when the text is split into words, and when a line is trimmed)
            n = r.randint(6, 16)
            words = [plain_word(r, 7) for _ in range(n)]
            for _ in range(r.randint(1, 3)):
                words[r.randint(1, n - 1)] = r.choice(["fin\u202f", "\u2007fig", "20\u202fkm", "\u202fx\u202f", "a\u2003b", "end\u2007"])
            words[0] = "Start"
            yield {"kind": "text", "text": " ".join(words) + "\n", "feats": ["space-hazard"], "profile": "space-hazard",
                   "opts": [rand_opts(r, widths=[r.randint(8, 40)], plaintext_p=0.3), rand_opts(r, widths=[r.randint(8, 60)], plaintext_p=0.3)]}
            if r.random() < 0.15:
                # headings wrapped in several levels of bold / emphasis, with cleanups on (one run must do what two runs do)
                core = r.choice(["alpha beta", "x", "one two"])
                hs = [r.choice(["****{}****", "**__{}__**", "__**{}**__", "***{}***", "*****{}*****", "**_**{}**_**", "******{}******", "**{}**",
                                "_**__{}__**_"]).format(core) for _ in range(r.randint(1, 3))]
                text = "\n\n".join(("# " + h) if r.random() < 0.7 else (h + "\n===") for h in hs) + "\n\nBody.\n"
                yield {"kind": "text", "text": text, "feats": ["cleanup-hazard"], "profile": "cleanup-hazard",
                       "opts": [rand_opts(r, force={"cleanups": True}), rand_opts(r, force={"cleanups": True})]}
            if r.random() < 0.1:
                # sub-workload of the listed finding KF-C02-list-inside-footnote-definition (G-doc keeps lists out of footnotes)
                yield {"kind": "text", "text": "[^1]: para one\n\n    - a\n    - b\n\n    " + r.choice(["```\n    code\n    ```", "> quote", "more text"]) + "\n\nx[^1]\n",
                       "feats": ["footnote-list"], "profile": "footnote-list", "opts": [rand_opts(r, widths=[0, 30, 88])]}
            if r.random() < 0.04:
                # hand-wrapped text of 4..40 KB whose size shrinks a lot once white space is collapsed (indented continuation
                # lines, runs of spaces), with constructs that hold spaces: a size test on the raw text decides differently on
                # the second pass. Plaintext and Markdown.
                from vf.gen_para import CODE_SPANS, LINKS, HTML, para_words
                nsent = r.choice([40, 100, 160, 400])
                sents = para_words(r, nsent, atoms=0.12, atom_pool=CODE_SPANS + LINKS + HTML, maxw=10)
                ind = " " * r.choice([4, 8, 12])
                big = ""
                for ws in sents:
                    ws = [w for w in ws if not w.startswith(("`` ", "[r1]", "[ref text]"))]
                    line = (" " * r.choice([1, 2, 6])).join(ws)
                    big += line + r.choice(["\n" + ind, "\n" + ind, "   ", "\n"])
                big = "Start " + big.strip() + "\n"
                yield {"kind": "text", "text": big, "feats": ["hand-wrapped-big"], "profile": "hand-wrapped-big",
                       "opts": [rand_opts(r, widths=[40, 88], force={"plaintext": True}), rand_opts(r, widths=[40, 88, 0], force={"plaintext": r.random() < 0.5})]}
            # a number-dot word and an inline tag in one paragraph (listed finding KF-C02-escaped-number-in-tag-paragraph;
            # G-doc keeps the two apart)
            n = r.randint(6, 14)
            words = [plain_word(r, 7) for _ in range(n)]
            words[r.randint(1, n - 1)] = r.choice(["1999.", "12.", "2019."])
            words[r.randint(1, n - 1)] = r.choice(["{% endif %}", "{{ var }}", "<!-- c -->", "{# n #}"])
            words[0] = "Start"
            yield {"kind": "text", "text": r.choice(["", "- ", "> "]) + " ".join(words) + "\n", "feats": ["tagnum-hazard"], "profile": "tagnum-hazard",
                   "opts": [rand_opts(r, widths=[r.randint(8, 30)]), rand_opts(r, widths=[r.randint(8, 40)])]}

    def check(self, case, col: Collector):
        text, feats = self.load(case)
        self.feats_hist(col, feats)
        for o in case["opts"]:
            col.case()
            col.mon("text-idem")
            o1 = fm.fmt(text, **o)
            if isinstance(o1, fm.Raised):
                col.count("raised_cases_left_to_C12")
                continue
            o2 = fm.fmt(o1, **o)
            sub = dict(case, opts=[o])
            if isinstance(o2, fm.Raised):
                col.violation("text-idem", f"C02/second-pass-raised/{o2.kind}", sub, o2.text)
                continue
            if o1 != text:
                col.distinct(case.get("seed", text), opts_key(o))
            col.hist("mode", "plaintext" if o["plaintext"] else ("semantic" if o["semantic"] else "fill"))
            col.hist("width", "<=0" if o["width"] <= 0 else ("1-20" if o["width"] <= 20 else "21+"))
            if o2 != o1:
                d = first_line_diff(o1, o2)
                desc = self.classify(text, o, o1, o2, d, case)
                col.violation("text-idem", desc, sub, {"line": d[0], "pass1": d[1], "pass2": d[2]})
        if case.get("cli"):
            self.cli_twice(text, case["opts"][0], case, col)
        if col.evaluations % 401 == 0:
            col.sample({"case": {k: v for k, v in case.items() if k != "opts"}, "opts": case["opts"][0], "input_head": text[:200]})

    def classify(self, text, o, o1, o2, d, case) -> str:
        """Name the mechanism of a non-idempotent case (checked explicitly, never assumed)."""
        l1, l2 = o1.split("\n"), o2.split("\n")
        ell_ok = ellipsis_mechanism(o1, o2)
        ell_desc = f"C02/nonidempotent/caused-by/{ell_ok}"
        # several independent mechanisms may hit one document: attribute line by line when pass 2 only
        # rewrote lines in place
        if len(l1) == len(l2):
            sq = lambda t: t.replace("…", "...").replace(" ", "")  # noqa: E731
            unq = lambda t: t.translate({0x201c: '"', 0x201d: '"', 0x2018: "'", 0x2019: "'"})  # noqa: E731
            mech = set()
            for a, b in zip(l1, l2):
                if a == b:
                    continue
                if o.get("ellipses") and ell_ok and "..." in a and sq(a) == sq(b):
                    mech.add(ell_desc)
                elif o.get("smartquotes") and unq(a) == unq(b):
                    mech.add("C02/nonidempotent/caused-by/smartquotes-needs-second-pass")
                else:
                    mech = None
                    break
            if mech and len(mech) > 1:
                # both listed mechanisms, nothing else: report one (both are listed findings)
                return sorted(mech)[0]
        if len(l1) == len(l2) and all(a.rstrip() == b.rstrip() for a, b in zip(l1, l2)) and \
                all(set(a.strip()) <= {">"} for a, b in zip(l1, l2) if a != b):
            return "C02/nonidempotent/trailing-space-on-empty-quote-line"
        if o.get("ellipses") and ell_ok and not o.get("plaintext") and d[1] is not None and d[2] is not None:
            sq = lambda t: t.replace("…", "...").replace(" ", "")  # noqa: E731
            # the first differing line differs only by a '...' that pass 2 converted (and re-wrapped words)
            if "..." in d[1] and (sq(d[1]) == sq(d[2]) or sq(d[2]).startswith(sq(d[1])) or sq(d[1]).startswith(sq(d[2]))):
                return ell_desc
            if sq("".join(l1)) == sq("".join(l2)):
                return ell_desc
        if o.get("smartquotes") and not o.get("plaintext"):
            oo = dict(o, smartquotes=False)
            p1 = fm.fmt(text, **oo)
            unq = lambda t: t.translate({0x201c: '"', 0x201d: '"', 0x2018: "'", 0x2019: "'"})  # noqa: E731
            if not isinstance(p1, fm.Raised) and fm.fmt(p1, **oo) == p1 and unq(o1) == unq(o2):
                # only quote characters differ, and without the option the document is a fixed point:
                # the single-pass quote regex converts some quotations only once others have been converted
                return "C02/nonidempotent/caused-by/smartquotes-needs-second-pass"
        # several listed mechanisms in one document: cumulative normalisation (ellipsis conversion, quote
        # conversion) must make the two passes equal and each normalisation used must be a listed mechanism
        if not o.get("plaintext"):
            # (a converted run changes the line lengths, so the re-wrap may put another marker-like word first on a line and
            # escape it, or take one away from a line start: such line-start escapes are part of the same re-wrap)
            strip = _strip_layout
            ell = lambda t: t.replace(" …", "…").replace("… ", "…").replace("…", "...").replace(" ...", "...").replace("... ", "...")  # noqa: E731
            unq2 = lambda t: t.translate({0x201c: '"', 0x201d: '"', 0x2018: "'", 0x2019: "'"})  # noqa: E731
            a, b = o1, o2
            used = []
            if o.get("ellipses") and ell_ok and (strip(ell(a)) != strip(a) or strip(ell(b)) != strip(b)):
                a, b = ell(a), ell(b)
                used.append(ell_desc)
            if strip(a) != strip(b) and o.get("smartquotes"):
                a, b = unq2(a), unq2(b)
                used.append("C02/nonidempotent/caused-by/smartquotes-needs-second-pass")
            if used and strip(a) == strip(b):
                return used[0]
        if not o.get("plaintext") and re.search(r"(?m)^(?:[ >]|[-*+] )*\d+\\\.", o1) and \
                re.search(r"(?m)^(?:[ >]|[-*+] )*(?:\{[%{#]|<!--)|(?:[%}#]\}|-->)[ \t]*$", o1):
            # pass 1 escaped a number-dot word at a line start ('1999\.') in a paragraph that has a tag at a line edge; pass 2 drops
            # that escape (render_literal) and its tag handler then takes the line for a list item: it is wrapped on its own,
            # not re-escaped, and may get a blank line next to the tag. Checked: undoing exactly that makes the passes equal.
            unesc = lambda t: re.sub(r"(?m)^((?:[ >]|[-*+] )*\d+)\\\.", r"\1.", t)  # noqa: E731
            flat = lambda t: re.sub(r"\s+", " ", re.sub(r"(?m)^[ >]+", "", unesc(t))).strip()  # noqa: E731
            if flat(o1) == flat(o2):
                return "C02/nonidempotent/caused-by/escaped-number-in-tag-paragraph"
        if not o.get("plaintext") and re.search(r"(?m)^\[\^[^\]\n]+\]:", o1) and re.search(r"(?m)^ {4,}(?:[-*+]|\d+[.)]) ", o1) and \
                o1.split() == o2.split():
            # a list inside a footnote definition: marko reads the items (and what follows them) one level deeper than they are
            # written, so every pass indents the blocks after the list further. Checked: the passes differ in white space only (indentation, the blank lines of a list that became nested, re-wrapping at the deeper indent).
            return "C02/nonidempotent/caused-by/list-inside-footnote-definition"
        if tag_boundaries(text) != tag_boundaries(o1):
            return "C02/nonidempotent/caused-by/tag-newline-created-by-pass1"
        kind = line_kind(d[1] or d[2] or "")
        mode = "plaintext" if o["plaintext"] else "markdown"
        typo = "+typo" if (o["smartquotes"] or o["ellipses"]) and not o["plaintext"] else ""
        return f"C02/nonidempotent/{case.get('profile', 'text')}/{mode}{typo}/{kind}"

    def cli_twice(self, text, o, case, col):
        from flowmark import cli

        col.mon("cli-idem")
        d = tempfile.mkdtemp(prefix="vf-c02-")
        try:
            p = os.path.join(d, "doc.md")
            with open(p, "w") as f:
                f.write(text)
            argv = ["--inplace", "--nobackup", "-w", str(o["width"]), "--list-spacing", o["list_spacing"]]
            for k in ("semantic", "cleanups", "smartquotes", "ellipses", "plaintext"):
                if o[k]:
                    argv.append("--" + k)
            argv.append(p)
            outs = []
            cwd = os.getcwd()
            os.chdir(d)
            try:
                for _ in range(2):
                    with contextlib.redirect_stdout(io.StringIO()), contextlib.redirect_stderr(io.StringIO()):
                        rc = fm.call(cli.main, argv)
                    if isinstance(rc, fm.Raised) or rc != 0:
                        col.count("cli_nonzero_left_to_C12_C15")
                        return
                    with open(p) as f:
                        outs.append(f.read())
            finally:
                os.chdir(cwd)
            if outs[0] != outs[1]:
                dd = first_line_diff(outs[0], outs[1])
                desc = self.classify(text, o, outs[0], outs[1], dd, case)
                col.violation("cli-idem", desc, dict(case, opts=[o], cli=True),
                              {"argv": argv[:-1], "line": dd[0], "pass1": dd[1], "pass2": dd[2]})
        finally:
            shutil.rmtree(d, ignore_errors=True)


PROP = C02()
