"""C18 — gitignore handling agrees with git.

Monitors:
  git-diff   for generated trees with .gitignore files at any level (lines drawn from the whole gitignore pattern
             language), FileResolver.resolve([root]) must equal `git ls-files -co --exclude-standard` (git run in
             an isolated configuration) restricted to the included names; git itself is the oracle
  no-respect with respect_gitignore=False the result must equal the result on the same tree with every .gitignore
             deleted
  cli        `flowmark --list-files <root>` (cli.main) gives the same list as the API, and with --no-respect-gitignore the
             list of the API with respect_gitignore=False, also when a flowmark.toml next to the tree says respect-gitignore = true
"""
from __future__ import annotations

import contextlib
import io
import os
import shutil
import tempfile

from vf import fm
from vf.core import Collector, Inconclusive, Prop, shard_rng
from vf.gen_tree import PATTERNS, build_tree, git_listing

CLASSES = {"anchored": lambda p: p.lstrip("!").startswith("/"), "negation": lambda p: p.startswith("!"),
           "dir-only": lambda p: p.rstrip().endswith("/"), "multi-segment": lambda p: "/" in p.strip("!/ "),
           "double-star": lambda p: "**" in p, "wildcard": lambda p: "*" in p or "?" in p or "[" in p, "comment-or-blank": lambda p: p.strip() == "" or p.startswith("#")}


def pattern_classes(p):
    return [k for k, f in CLASSES.items() if f(p)] or ["basename"]


class C18(Prop):
    id = "C18"
    rule = ("cases: random trees (2..8 directories, nesting <= 4, names with spaces and dots, 10 file names) with a .gitignore in "
            "~60% of the directories holding 1..4 lines drawn from 41 pattern shapes (basename, anchored, multi-segment, dir-only, "
            "*, **, ?, classes, negations, escaped '#', trailing spaces, comments, blank lines, repeated lines around a negation); trees avoid default-excluded names, "
            "links and oversize files so that only gitignore decides. Non-trivial: at least one .gitignore with an active rule; "
            "distinct by hash of (tree, ignore files).")
    assumptions = ["git (2.39, isolated from user and system configuration, no info/exclude) is the oracle for gitignore semantics"]
    deciding = {"git-diff": {"quick": 400, "thorough": 4000}, "no-respect": {"quick": 400, "thorough": 4000}, "cli": {"quick": 100, "thorough": 1000}}
    soft_timeout = 120.0

    def cases(self, tier, seed, shard, nshards):
        r = shard_rng(seed, self.id, shard)
        n = 30 if tier == "quick" else 300
        for _ in range(n):
            yield {"kind": "tree", "seed": r.getrandbits(40), "cli": r.random() < 0.3}
        if shard < 3:
            yield {"kind": "locale", "variant": shard}

    def setup_worker(self, col, tier):
        if shutil.which("git") is None:
            col.inconcl("git is not available: the oracle cannot run")
        from flowmark import cli
        from flowmark.file_resolver import FileResolver, FileResolverConfig
        self.cli, self.FR, self.FRC = cli, FileResolver, FileResolverConfig
        self.tmp = tempfile.mkdtemp(prefix="vf-c18-")

    def teardown_worker(self, col):
        shutil.rmtree(self.tmp, ignore_errors=True)

    def _check_locale(self, case, col):
        """The real command line in a process whose locale is not UTF-8: git reads .gitignore as bytes, whatever the locale."""
        import subprocess
        import sys
        base = tempfile.mkdtemp(prefix="t-", dir=self.tmp)
        root = os.path.join(base, "tree")
        try:
            for f in ["a.md", "b.md", "docs/a.md", "docs/b.md", "drafts/d.md", "keep/b.md"]:
                os.makedirs(os.path.dirname(os.path.join(root, f)) or root, exist_ok=True)
                with open(os.path.join(root, f), "w") as fh:
                    fh.write("x\n")
            lines = [["# caf\u00e9 \u2014 brouillons", "drafts/", "b.md", "!keep/b.md"], ["\ufeffdrafts/", "/b.md", "# \u4e2d\u6587"], ["docs/", "# plain ascii"]][case["variant"]]
            with open(os.path.join(root, ".gitignore"), "w", encoding="utf-8") as fh:
                fh.write("\n".join(lines) + "\n")
            with open(os.path.join(root, "docs", ".gitignore"), "w", encoding="utf-8") as fh:
                fh.write("# \u00fcber\nb.md\n")
            want = sorted(os.path.join(os.path.realpath(root), p) for p in git_listing(root) if p.endswith(".md"))
            shutil.rmtree(os.path.join(root, ".git"), ignore_errors=True)
            for name, extra in (("utf8", {"LC_ALL": "C.UTF-8"}), ("C", {"LC_ALL": "C", "LANG": "C", "PYTHONUTF8": "0", "PYTHONCOERCECLOCALE": "0"})):
                env = dict(os.environ, **extra)
                env.pop("PYTHONIOENCODING", None)
                p = subprocess.run([sys.executable, "-m", "flowmark.cli", "--list-files", "."], cwd=root, env=env, capture_output=True, timeout=120)
                col.case()
                col.mon("cli")
                col.distinct("locale", case["variant"], name)
                got = sorted(os.path.realpath(os.path.join(root, x)) for x in p.stdout.decode("utf-8", "replace").split("\n") if x)
                if p.returncode != 0 or got != want:
                    col.violation("cli", f"C18/cli-under-locale-{name}-disagrees-with-git", case,
                                  {"rc": p.returncode, "gitignore": lines, "listed_but_git_ignores": [os.path.relpath(x, root) for x in sorted(set(got) - set(want))[:4]],
                                   "git_keeps_but_missing": [os.path.relpath(x, root) for x in sorted(set(want) - set(got))[:4]], "stderr": p.stderr.decode("utf-8", "replace")[-200:]})
        finally:
            shutil.rmtree(base, ignore_errors=True)

    def check(self, case, col: Collector):
        if case["kind"] == "locale":
            return self._check_locale(case, col)
        import random
        r = random.Random(case["seed"])
        base = tempfile.mkdtemp(prefix="t-", dir=self.tmp)
        root = os.path.join(base, "tree")
        try:
            ex = case.get("explicit")
            if ex:
                # a tree written out in full (witnesses of repaired defects: independent of later changes to the generator)
                t = {"dirs": sorted({os.path.dirname(f) for f in ex["files"]} | set(ex["ignore"]) | {""}), "files": {f: 3 for f in ex["files"]}, "links": {}}
                for d in t["dirs"]:
                    os.makedirs(os.path.join(root, d), exist_ok=True)
                for f in ex["files"]:
                    with open(os.path.join(root, f), "w") as fh:
                        fh.write("xxx")
                for d, data in ex["ignore"].items():
                    with open(os.path.join(root, d, ".gitignore"), "w", newline="") as fh:
                        fh.write(data)
            else:
                t = build_tree(r, root, excluded_names=False)
            ign = {d: data.split("\n") for d, data in ex["ignore"].items()} if ex else {}
            for d in ([] if ex else t["dirs"]):
                if r.random() < 0.6:
                    lines = r.sample(PATTERNS, r.randint(1, 4))
                    if r.random() < 0.3:
                        # the same line again further down: the LAST matching line decides, so a repeated rule after a
                        # negation (or a repeated negation after a rule) matters
                        lines.insert(r.randint(1, len(lines)), "!" + r.choice(["README.md", "a.md", "b.md", "*.md", "c.md", "docs/"]))
                        lines.append(lines[0])
                        col.count("files_with_a_repeated_line")
                    ign[d] = lines
                    # the file as bytes: sometimes a UTF-8 byte order mark in front (git skips it), CRLF line ends
                    data = ("\r\n" if r.random() < 0.1 else "\n").join(lines) + "\n"
                    if r.random() < 0.1:
                        data = "\ufeff" + data
                        col.count("files_with_bom")
                    with open(os.path.join(root, d, ".gitignore"), "w", newline="") as f:
                        f.write(data)
            active = [p for ls in ign.values() for p in ls if p.strip() and not p.startswith("#")]
            for p in active:
                for c in pattern_classes(p):
                    col.hist("pattern_classes", c)
            col.hist("gitignore_files", min(len(ign), 5))
            # the traversal root may be spelled in several ways; the listing (after realpath) must not depend on it
            spelling = r.choice(["abs", "abs", "rel", "dotdot", "symlink"])
            arg = root
            old_cwd = os.getcwd()
            if spelling == "rel":
                os.chdir(base)
                arg = "tree"
            elif spelling == "dotdot" and len(t["dirs"]) > 1:
                arg = os.path.join(root, t["dirs"][1].split("/")[0], "..")
            elif spelling == "symlink":
                os.symlink(root, os.path.join(base, "via-link"))
                arg = os.path.join(base, "via-link")
            col.hist("root_spelling", spelling)
            try:
                got = fm.call(lambda: sorted(str(p) for p in self.FR(self.FRC()).resolve([arg])))
            finally:
                os.chdir(old_cwd)
            col.case()
            col.mon("git-diff")
            if active:
                col.distinct(case["seed"])
            if isinstance(got, fm.Raised):
                col.violation("git-diff", f"C18/raised/{got.kind}", case, got.text)
                return
            want = sorted(os.path.join(os.path.realpath(root), p) for p in git_listing(root) if p.endswith(".md") and os.path.basename(p) != ".gitignore")
            shutil.rmtree(os.path.join(root, ".git"), ignore_errors=True)
            got = [os.path.realpath(p) for p in got]
            if got != want:
                extra = sorted(set(got) - set(want))
                missing = sorted(set(want) - set(got))
                # which rule decides the first disagreeing file (by git's own verbose answer)?
                cls = self.classify(root, (extra + missing)[0], ign)
                col.violation("git-diff", f"C18/disagrees-with-git/{'listed-but-ignored' if extra else 'missing-but-not-ignored'}/{cls}", case,
                              {"listed_but_git_ignores": [os.path.relpath(p, root) for p in extra[:4]],
                               "git_keeps_but_missing": [os.path.relpath(p, root) for p in missing[:4]], "gitignore": ign})
            # two traversal roots in one call, one inside the other: each is listed by its own rules ("from the traversal
            # root down"), so the result is the union of what git lists at either root
            subs = [d for d in t["dirs"] if d]
            if subs and (case["seed"] % 2 == 0 or ex):
                sub = os.path.join(root, r.choice(subs))
                want_sub = sorted(os.path.join(os.path.realpath(sub), p) for p in git_listing(sub) if p.endswith(".md") and os.path.basename(p) != ".gitignore")
                shutil.rmtree(os.path.join(sub, ".git"), ignore_errors=True)
                union = sorted(set(want) | set(want_sub))
                for order_ in ([root, sub], [sub, root]):
                    col.case()
                    col.mon("git-diff")
                    col.count("two_root_listings")
                    got2 = fm.call(lambda: sorted(os.path.realpath(str(p)) for p in self.FR(self.FRC()).resolve(list(order_))))
                    if isinstance(got2, fm.Raised):
                        col.violation("git-diff", f"C18/raised/{got2.kind}", case, got2.text)
                    elif got2 != union:
                        col.violation("git-diff", "C18/two-roots/differs-from-union-of-git-listings/" + ("outer-first" if order_[0] == root else "inner-first"), case,
                                      {"inner_root": os.path.relpath(sub, root), "extra": [os.path.relpath(p, root) for p in sorted(set(got2) - set(union))[:4]],
                                       "missing": [os.path.relpath(p, root) for p in sorted(set(union) - set(got2))[:4]], "gitignore": ign})
            # respect_gitignore=False == no .gitignore files at all
            col.case()
            col.mon("no-respect")
            off = sorted(os.path.realpath(str(p)) for p in self.FR(self.FRC(respect_gitignore=False)).resolve([root]))
            if case.get("cli"):
                col.case()
                col.mon("cli")
                out = io.StringIO()
                with contextlib.redirect_stdout(out), contextlib.redirect_stderr(io.StringIO()):
                    old = os.getcwd()
                    os.chdir(base)
                    try:
                        rc = self.cli.main(["--list-files", root])
                    finally:
                        os.chdir(old)
                lst = sorted(os.path.realpath(x) for x in out.getvalue().split("\n") if x)
                if rc != 0 or lst != got:
                    col.violation("cli", "C18/cli-list-files-differs-from-api", case, {"rc": rc, "cli": len(lst), "api": len(got)})
                # the command-line switch, also against a configuration file that says the opposite
                cfg = r.choice([None, "respect-gitignore = true\n", "[file-discovery]\nrespect-gitignore = true\n"])
                if cfg:
                    with open(os.path.join(base, "flowmark.toml"), "w") as f:
                        f.write(cfg)
                col.hist("cli_config", repr(cfg))
                out = io.StringIO()
                with contextlib.redirect_stdout(out), contextlib.redirect_stderr(io.StringIO()):
                    old = os.getcwd()
                    os.chdir(base)
                    try:
                        rc = self.cli.main(["--list-files", "--no-respect-gitignore", root])
                    finally:
                        os.chdir(old)
                        if cfg:
                            os.remove(os.path.join(base, "flowmark.toml"))
                lst = sorted(os.path.realpath(x) for x in out.getvalue().split("\n") if x)
                if rc != 0 or lst != off:
                    col.violation("cli", "C18/cli-no-respect-gitignore-differs-from-api" + ("/config-says-respect" if cfg else ""), case,
                                  {"rc": rc, "cli": len(lst), "api_respect_off": len(off), "config": cfg})
            for d in ign:
                os.remove(os.path.join(root, d, ".gitignore"))
            bare = sorted(os.path.realpath(str(p)) for p in self.FR(self.FRC()).resolve([root]))
            if off != bare:
                col.violation("no-respect", "C18/no-respect-gitignore-still-influenced", case,
                              {"only_with_flag": [os.path.relpath(p, root) for p in sorted(set(off) - set(bare))[:4]],
                               "only_without_files": [os.path.relpath(p, root) for p in sorted(set(bare) - set(off))[:4]]})
            if case["seed"] % 7 == 0:
                col.sample({"dirs": t["dirs"], "files": sorted(t["files"])[:12], "gitignore": ign, "listed": [os.path.relpath(p, root) for p in got][:10]})
        finally:
            shutil.rmtree(base, ignore_errors=True)

    def classify(self, root, path, ign) -> str:
        import subprocess

        from vf.gen_tree import GIT_ENV
        try:
            subprocess.run(["git", "init", "-q", root], env=GIT_ENV, check=True, capture_output=True)
            p = subprocess.run(["git", "-C", root, "check-ignore", "-v", "--no-index", os.path.relpath(path, root)], env=GIT_ENV,
                               capture_output=True, text=True)
            shutil.rmtree(os.path.join(root, ".git"), ignore_errors=True)
            if p.stdout.strip():
                src, rest = p.stdout.split("\t")[0], p.stdout
                pat = src.split(":", 2)[2]
                depth = "nested-file" if os.path.dirname(src.split(":")[0]) else "root-file"
                return "+".join(pattern_classes(pat)) + "/" + depth
            return "not-ignored-by-git"
        except Exception:  # noqa: BLE001
            return "unclassified"


PROP = C18()
