"""C08 — smart quotes only swap individual quote characters, and only in prose.

Monitors:
  func   the real typography.smartquotes.smart_quotes over ALL strings of <= 5 symbols from a 15-symbol
         alphabet (quotes, letters, space, punctuation, newline, tag / comment delimiters, em dash, backslash):
         same length, only ' -> one of the single curly quotes and " -> one of the double curly quotes,
         nothing inside a template tag / HTML comment changes, no curly pair spans a paragraph break
  diff   documents: reformat_text(x, smartquotes=True, ...) vs (..., smartquotes=False, ...) for random other
         options: equal length, equal line breaks, differences only at quote positions with the matching curly,
         none of them inside a protected span (code block/span, tag, comment, HTML tag, URL, destination,
         definition, backslash escape), pairs within one paragraph
"""
from __future__ import annotations

import itertools
import re

from vf import fm
from vf.core import Collector, shard_rng
from vf.docbase import DocProp, opts_key, rand_opts
from vf.protect import inside, protected

ALPHABET = ["'", '"', "a", "s", " ", ".", "\n", "{%", "%}", "<!--", "-->", "—", ")", "\\", "’"]
SINGLE, DOUBLE = "‘’", "“”"
_TAGS = re.compile(r"\{%.*?%\}|\{\{.*?\}\}|\{#.*?#\}|<!--.*?-->", re.S)
_PARA = re.compile(r"\n\s*\n")
_WSRUN = re.compile(r"\s+")


def char_rule(a: str, b: str):
    """Position-wise rule. Returns None if fine, else a description."""
    if len(a) != len(b):
        return ("length", len(a), len(b))
    for i, (x, y) in enumerate(zip(a, b)):
        if x == y:
            continue
        if x == "'" and y in SINGLE:
            continue
        if x == '"' and y in DOUBLE:
            continue
        return ("char", i, x, y)
    return None


class C08(DocProp):
    id = "C08"
    once_kinds = ("exh",)
    rule = ("cases: (a) exhaustive: every concatenation of <= 5 symbols from the 15-symbol alphabet "
            "[' \" a s space . newline {% %} <!-- --> em-dash ) backslash right-single-curly] through smart_quotes() "
            "(813,615 strings, split over shards by first symbols); (b) G-doc documents of the 'typo' and 'core' "
            "profiles x random settings of every other option, on/off differential. Non-trivial: the option changed "
            "at least one character; distinct by hash of input (and options).")
    assumptions = ["protected spans are located in the option-off output by a purely textual scanner written for the harness "
                   "(vf/protect.py)"]
    deciding = {"func": {"quick": 813615, "thorough": 813615}, "diff": {"quick": 1500, "thorough": 15000}}
    profiles = ["typo", "typo", "core", "tags"]
    ndocs = {"quick": 50, "thorough": 500}
    soft_timeout = 120.0

    def cases(self, tier, seed, shard, nshards):
        # exhaustive blocks: by the first two symbols (225 blocks + the short strings)
        blocks = [(a, b) for a in range(len(ALPHABET)) for b in range(len(ALPHABET))]
        for bi, ab in enumerate(blocks):
            if bi % nshards == shard:
                yield {"kind": "exh", "first": list(ab)}
        if shard == 0:
            yield {"kind": "exh", "first": []}
        for r, c in self.doc_cases(tier, seed, shard, nshards):
            c["opts"] = [rand_opts(r), rand_opts(r), rand_opts(r, widths=[0, 30, 88])]
            yield c
            if r.random() < 0.1:
                # sub-workload of the listed finding KF-C08-shortcut-reference-quote-label (G-doc labels hold no quotes)
                lab = r.choice(["bob's page", "the \"big\" one", "it's"])
                yield {"kind": "text", "text": f"See [{lab}] for more, and [other text][{lab}] too.\n\n[{lab}]: http://x.y/z\n", "feats": ["quote-label"],
                       "profile": "quote-label", "opts": [rand_opts(r, widths=[0, 30, 88])]}

    def setup_worker(self, col, tier):
        from flowmark.typography.smartquotes import smart_quotes
        self.sq = smart_quotes

    def check(self, case, col: Collector):
        if case["kind"] == "exh":
            return self._exh(case, col)
        text, feats = self.load(case)
        self.feats_hist(col, feats)
        # "every other option setting" includes plaintext mode: the same textual rules apply there
        for o in case["opts"] + [dict(case["opts"][0], plaintext=True)]:
            col.case()
            if not o.get("plaintext"):
                o = dict(o, plaintext=False)
            else:
                col.count("plaintext_option_sets")
            off = fm.fmt(text, **dict(o, smartquotes=False))
            on = fm.fmt(text, **dict(o, smartquotes=True))
            sub = dict(case, opts=[o])
            if isinstance(on, fm.Raised) or isinstance(off, fm.Raised):
                if isinstance(on, fm.Raised) and not isinstance(off, fm.Raised):
                    col.violation("diff", f"C08/raised-only-with-option/{on.kind}", sub, on.text)
                continue
            col.mon("diff")
            if on != off:
                col.distinct(case.get("seed", text), opts_key(o))
            bad = char_rule(off, on)
            if bad and bad[0] == "length":
                # listed mechanism, checked: a shortcut reference '[label]' whose label holds a quote is respelled '[text][label]'
                # because the converted text no longer equals the label. Undoing exactly that must leave a lawful difference.
                unq = lambda t: t.translate({0x2018: "'", 0x2019: "'", 0x201c: '"', 0x201d: '"'})  # noqa: E731
                undone = re.sub(r"\[([^\]\[]*[‘’“”][^\]\[]*)\]\[([^\]\[]*)\]",
                                lambda m: "[" + m.group(1) + "]" if _WSRUN.sub(" ", unq(m.group(1))) == m.group(2) else m.group(0), on)
                # (the longer line may also wrap elsewhere: compare modulo line breaks)
                if undone != on and char_rule(_WSRUN.sub(" ", off), _WSRUN.sub(" ", undone)) is None:
                    col.violation("diff", "C08/diff/length-changed/shortcut-reference-with-quote-in-label", sub,
                                  {"off": off[:160], "on": on[:160]})
                    continue
            if bad:
                col.violation("diff", f"C08/diff/{bad[0]}-changed", sub,
                              {"what": bad, "off": off[max(0, bad[1] - 30):bad[1] + 30] if bad[0] == "char" else None,
                               "on": on[max(0, bad[1] - 30):bad[1] + 30] if bad[0] == "char" else None})
                continue
            spans = protected(off)
            for i, (x, y) in enumerate(zip(off, on)):
                if x != y:
                    k = inside(spans, i)
                    col.count("quote_positions_converted")
                    if k:
                        col.violation("diff", f"C08/diff/changed-inside-{k}", sub,
                                      {"pos": i, "off": off[max(0, i - 40):i + 40], "on": on[max(0, i - 40):i + 40]})
                        break
            # pairs within one paragraph / block
            for m in re.finditer(r"“[^”]*”", on):
                seg = off[m.start():m.end()]
                if off[m.start()] == '"' and _PARA.search(re.sub(r"(?m)^[ >]*$", "", seg)):
                    col.violation("diff", "C08/diff/pair-spans-paragraphs", sub, {"on": m.group(0)[:120]})
                    break
        if col.evaluations % 197 == 0:
            col.sample({"seed": case.get("seed"), "profile": case.get("profile"), "opts": case["opts"][0]})

    def _exh(self, case, col):
        first = [ALPHABET[i] for i in case["first"]]
        n = 0
        lens = range(0, 4) if first else [0, 1]
        fired = 0
        for L in lens:
            for rest in itertools.product(ALPHABET, repeat=L):
                s = "".join(first) + "".join(rest)
                n += 1
                out = fm.call(self.sq, s)
                if isinstance(out, fm.Raised):
                    col.violation("func", f"C08/func/raised/{out.kind}", {"kind": "string", "s": s}, out.text)
                    continue
                bad = char_rule(s, out)
                if bad:
                    col.violation("func", f"C08/func/{bad[0]}-rule", {"kind": "string", "s": s}, {"out": out, "what": bad})
                    continue
                if out != s:
                    col.distinct("s", s)
                    for m in _TAGS.finditer(s):
                        if out[m.start():m.end()] != m.group(0):
                            col.violation("func", "C08/func/changed-inside-tag", {"kind": "string", "s": s}, {"out": out})
                            break
                    for m in re.finditer(r"“[^”]*”", out):
                        if s[m.start()] == '"' and _PARA.search(m.group(0)):
                            col.violation("func", "C08/func/pair-spans-paragraphs", {"kind": "string", "s": s}, {"out": out})
                            break
        col.case(n)
        col.mon("func", n)
        col.count("exhaustive_strings", n)

    def check_string(self, case, col):
        pass

    def extra_evidence(self, col, tier):
        return {"exhaustive": col.counters.get("exhaustive_strings", 0) == 813616,
                "exhaustive_note": "the function-level sub-space (all strings of <= 5 alphabet symbols incl. the empty string) is enumerated completely"}


PROP = C08()
