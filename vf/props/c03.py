"""C03 — output is a canonical form independent of the input's line layout.

Monitors:
  relayout  f(relayout(x), o) == f(x, o): the same G-doc tree serialised with different layout seeds
            (soft breaks moved, space runs, re-indented / lazy continuation lines) and canonically
  history   f(f(x, o1), o2) == f(x, o2) for ordered pairs of (width, mode) option sets; a case is exempt
            (counted, not judged) only when pass 1 created or removed a newline directly next to a template
            tag or HTML comment, the one layout the property declares significant
"""
from __future__ import annotations

import random

import re

from vf import fm
from vf.core import Collector
from vf.docbase import DocProp, ellipsis_mechanism, first_line_diff, line_kind, rand_opts
from vf.gen_doc import gen_doc
from vf.props.c02 import tag_boundaries

PAIRS = [(88, False), (88, True), (40, False), (40, True), (12, False), (0, True), (20, True), (0, False)]
# escapes the renderer keeps for ever once the wrapper has added them (every non-period escape);
# an escaped period is un-escaped again by render_literal, so a surviving '\.' is NOT part of this finding
_UNESC = re.compile(r"\\(?=[-*+>#=~`_)]|\.)")
_MIDLINE_ESC_PERIOD = re.compile(r"(?m)^[ >]*(?:(?:[-*+]|\d+[.)])[ \t]+)*(?:\[[ xX]\][ \t]+)?(?![-*+] |\d+[.)] |\[[ xX]\] )\S.*?[ \t]\d+\\\.")
_WS = re.compile(r"\s+")


class C03(DocProp):
    id = "C03"
    rule = ("cases: G-doc trees (profiles core, typo, tags) serialised with 3 layouts each (two random layout seeds "
            "and the canonical single-space layout) x random option sets [relayout]; documents and hazard paragraphs "
            "formatted with (w1, mode1) then (w2, mode2) versus (w2, mode2) directly, over ordered pairs drawn from 8 "
            "(width, mode) points [history]. Non-trivial: the two layouts differ as text / pass 1 differs from the "
            "direct result; distinct by hash of (tree seed, layouts, options).")
    assumptions = ["re-layouts are produced by the generator's layout PRNG from one tree, so they are meaning-preserving "
                   "by construction (no parser involved)",
                   "history cases in which pass 1 changed the set of tag-adjacent newlines are exempt, as the property states"]
    deciding = {"relayout": {"quick": 1500, "thorough": 15000}, "history": {"quick": 1500, "thorough": 15000}}
    profiles = ["core", "core", "typo", "tags"]
    ndocs = {"quick": 40, "thorough": 400}

    def cases(self, tier, seed, shard, nshards):
        from vf.gen_para import HAZ_ESCAPED, plain_word

        for r, c in self.doc_cases(tier, seed, shard, nshards):
            yield dict(c, kind="relayout", layouts=[r.getrandbits(30), r.getrandbits(30)],
                       opts=[rand_opts(r), rand_opts(r), rand_opts(r, widths=[0, 12, 30, 88])])
            pairs = [r.sample(PAIRS, 2) for _ in range(3)]
            yield dict(c, kind="history", pairs=pairs,
                       base=rand_opts(r, force={"width": 0, "semantic": False}))
            n = r.randint(6, 14)
            words = [plain_word(r, 9) for _ in range(n)]
            for _ in range(r.randint(1, 2)):
                words[r.randint(2, n - 2)] = r.choice(["{% tag %}", "{{ v }}", "<!-- c -->", "{# n #}", "`code`", "[l](http://u.v)"])
            pos = sorted(r.sample(range(2, n), r.randint(1, 2)))
            for p_ in pos:
                words[p_] = r.choice(["2019.", "80)", "12.", "|x", "-x", "+1"])
                if words[p_ - 1].endswith(("%}", "}}", "-->", "#}")):
                    words[p_ - 1] = "word"
            if not words[0][:1].isalpha():
                words[0] = "Start"
            yield {"kind": "relayout2", "words": words, "breaks": [p_ - 1 for p_ in pos],
                   "opts": [rand_opts(r, widths=[0, 40, 88, 120], force={"ellipses": False, "smartquotes": False}) for _ in range(2)]}
            if r.random() < 0.04:
                yield {"kind": "threshold", "seed": r.getrandbits(40), "T": r.choice([2048, 4096, 8192, 8192, 16384]),
                       "opts": [rand_opts(r, widths=[40, 88], force={"ellipses": False, "smartquotes": False, "semantic": False}),
                                rand_opts(r, widths=[88], force={"ellipses": False, "smartquotes": False})]}
            n = r.randint(5, 16)
            words = [plain_word(r, 9) for _ in range(n)]
            for _ in range(r.randint(1, 2)):
                words[r.randint(1, n - 1)] = r.choice(HAZ_ESCAPED)
            if not words[0][:1].isalpha():
                words[0] = "Start"
            yield {"kind": "history", "text": " ".join(words) + "\n", "profile": "hazard", "feats": ["hazard"],
                   "pairs": [[(r.randint(4, 20), False), (r.randint(20, 60), False)], [(12, False), (88, True)]],
                   "base": rand_opts(r, force={"width": 0, "semantic": False, "smartquotes": False, "ellipses": False})}

    def _check_relayout2(self, case, col):
        """Explicit pair of layouts of one top-level paragraph: a soft break before a word that only looks
        like a list item / table row (valid paragraph continuation: '2019.', '80)', '|x'); the premise
        (both layouts are the same document for flowmark's reader) is checked before judging."""
        from vf import astn

        words, brk = case["words"], case["breaks"]
        a = " ".join(words) + "\n"
        b = "".join(w + ("\n" if i in brk else " ") for i, w in enumerate(words)).rstrip() + "\n"
        if astn.tree(a) != astn.tree(b):
            col.count("relayout2_premise_failed_layouts_read_differently")
            return
        for o in case["opts"]:
            col.case(2)
            col.mon("relayout", 2)
            oa, ob = fm.fmt(a, **o), fm.fmt(b, **o)
            if isinstance(oa, fm.Raised) or isinstance(ob, fm.Raised):
                continue
            col.distinct("relayout2", a, tuple(brk), sorted(o.items()))
            if oa != ob:
                d = first_line_diff(oa, ob)
                desc = self.classify(oa, ob, o, "relayout", dict(case, profile="listlike-continuation"), d)
                col.violation("relayout", desc, dict(case, opts=[o]), {"layout_a": a, "layout_b": b, "line": d[0], "a": d[1], "b": d[2]})

    def _check_threshold(self, case, col):
        """Two layouts of one long paragraph whose length is just under a power of two when written with single blanks and
        well over it when written with space runs (a length at which another code path might take over)."""
        from vf.gen_para import plain_word
        r = random.Random(case["seed"])
        T = case["T"]
        atoms = ["[two words](http://ex.com/a)", "`a b c`", "{% tag a=1 %}", "<span class=\"a b\">", "[long link text here](http://x.y/z)"]
        words = []
        while len(" ".join(words)) < T - 60:
            words.append(r.choice(atoms) if r.random() < 0.12 else plain_word(r, 9))
            if r.random() < 0.08:
                words.append(r.choice(["end.", "stop!", "why?"]))
        a = " ".join(words)[:T - 1].rsplit(" ", 1)[0] + " end.\n"
        if a.count("`") % 2 or a.count("[") != a.count("]("):
            a = re.sub(r"[`\[\]()]", "", a)
        b = re.sub(r"(?<=[a-z.!?]) (?=[a-z])", lambda m: r.choice([" ", " ", "  ", "   "]), a)
        self._check_pair(dict(case, a=a, b=b), col)
        col.count("threshold_pairs")

    def _check_pair(self, case, col):
        """An explicit pair of layouts of one document (witnesses of repaired defects); same premise as relayout2."""
        from vf import astn

        a, b = case["a"], case["b"]
        if astn.tree(a) != astn.tree(b):
            col.count("pair_premise_failed_layouts_read_differently")
            return
        for o in case["opts"]:
            col.case(2)
            col.mon("relayout", 2)
            oa, ob = fm.fmt(a, **o), fm.fmt(b, **o)
            if isinstance(oa, fm.Raised) or isinstance(ob, fm.Raised):
                continue
            if oa != ob:
                d = first_line_diff(oa, ob)
                col.violation("relayout", f"C03/relayout/core/{line_kind(d[1] or d[2] or '')}", dict(case, opts=[o]),
                              {"line": d[0], "a": d[1], "b": d[2]})

    def check(self, case, col: Collector):
        getattr(self, "_check_" + case["kind"])(case, col)

    def _check_relayout(self, case, col):
        docs = [gen_doc(case["seed"], case["profile"], layout_seed=ls, scale=case.get("scale", 1)) for ls in case["layouts"]]
        docs.append(gen_doc(case["seed"], case["profile"], wild_layout=False, scale=case.get("scale", 1)))
        self.feats_hist(col, docs[0].feats)
        for o in case["opts"]:
            outs = []
            for d in docs:
                col.case()
                col.mon("relayout")
                out = fm.fmt(d.text, **o)
                outs.append(out)
            if any(isinstance(x, fm.Raised) for x in outs):
                col.count("raised_cases_left_to_C12")
                continue
            if docs[0].text != docs[1].text:
                col.distinct("relayout", case["seed"], tuple(case["layouts"]), sorted(o.items()))
            for j in (1, 2):
                if outs[j] != outs[0]:
                    d = first_line_diff(outs[0], outs[j])
                    desc = self.classify(outs[0], outs[j], o, "relayout", case, d)
                    col.violation("relayout", desc, dict(case, opts=[o]),
                                  {"layout_a": case["layouts"][0], "layout_b": case["layouts"][1] if j == 1 else "canonical",
                                   "line": d[0], "a": d[1], "b": d[2]})
                    break
            col.hist("mode", "semantic" if o["semantic"] else "fill")
        if col.evaluations % 301 == 0:
            col.sample({"kind": "relayout", "seed": case["seed"], "profile": case["profile"],
                        "layout_a_head": docs[0].text[:160], "layout_b_head": docs[1].text[:160]})

    def classify(self, a, b, o, kind, case, d) -> str:
        """Name the mechanism: each listed mechanism is a normalisation under which the two outputs must
        become equal; several may be needed for one document (then the first in this order is reported)."""
        sq = lambda t: t.replace(" …", "…").replace("… ", "…").replace("…", "...")  # noqa: E731
        unq = lambda t: t.translate({0x201c: '"', 0x201d: '"', 0x2018: "'", 0x2019: "'"})  # noqa: E731
        unesc = lambda t: _UNESC.sub("", t)  # noqa: E731
        ws = lambda t: _WS.sub("", t)  # noqa: E731
        # re-wrapping changes the number of lines, hence of container prefixes: drop them first
        a = re.sub(r"(?m)^[ >]+", "", a)
        b = re.sub(r"(?m)^[ >]+", "", b)
        steps = []
        em = "ellipsis-at-line-start"
        if kind == "history" and case.get("_mid") is not None:
            em = ellipsis_mechanism(case["_mid"], case["_via"])
        if o.get("ellipses") and em:
            steps.append((f"C03/{kind}/caused-by/{em}", lambda t: sq(sq(t).replace(" ...", "...").replace("... ", "..."))))
        if o.get("smartquotes") and kind == "history":
            steps.append(("C03/history/caused-by/smartquotes-needs-second-pass", unq))
        # an escaped period is un-escaped by the renderer wherever it is not needed, so in the known
        # mechanism a '\.' can only ever sit at the start of a line; one in the middle of a line is something else
        if kind == "history" and not (_MIDLINE_ESC_PERIOD.search(a) or _MIDLINE_ESC_PERIOD.search(b)):
            steps.append((f"C03/{kind}/sticky-escape", unesc))
        na, nb = a, b
        for name, fn in steps:
            if ws(fn(a)) == ws(fn(b)):
                return name
        used = []
        for name, fn in steps:
            na2, nb2 = fn(na), fn(nb)
            if (na2, nb2) != (na, nb):
                used.append(name)
            na, nb = na2, nb2
            if ws(na) == ws(nb):
                return used[0]
        return f"C03/{kind}/{case.get('profile', 'text')}/{line_kind(d[1] or d[2] or '')}"

    def _check_history(self, case, col):
        if "text" in case:
            text, feats = case["text"], set(case.get("feats", []))
        else:
            d = gen_doc(case["seed"], case["profile"], scale=case.get("scale", 1))
            text, feats = d.text, d.feats
        self.feats_hist(col, feats)
        base = case["base"]
        for (p1, p2) in case["pairs"]:
            col.case()
            o1 = dict(base, width=p1[0], semantic=p1[1])
            o2 = dict(base, width=p2[0], semantic=p2[1])
            direct = fm.fmt(text, **o2)
            mid = fm.fmt(text, **o1)
            if isinstance(direct, fm.Raised) or isinstance(mid, fm.Raised):
                col.count("raised_cases_left_to_C12")
                continue
            via = fm.fmt(mid, **o2)
            if isinstance(via, fm.Raised):
                col.violation("history", f"C03/history/second-pass-raised/{via.kind}", dict(case, pairs=[[p1, p2]]), via.text)
                continue
            if tag_boundaries(text) != tag_boundaries(mid):
                col.count("history_exempt_tag_newline_created_by_pass1")
                continue
            col.mon("history")
            if mid != direct:
                col.distinct("history", case.get("seed", text), p1, p2, sorted(base.items()))
            col.hist("pair", f"{p1}->{p2}")
            if via != direct:
                dd = first_line_diff(direct, via)
                desc = self.classify(direct, via, o2, "history", dict(case, _mid=mid, _via=via), dd)
                col.violation("history", desc, dict(case, pairs=[[p1, p2]]),
                              {"o1": [p1[0], p1[1]], "o2": [p2[0], p2[1]], "line": dd[0], "direct": dd[1], "via": dd[2]})


PROP = C03()
