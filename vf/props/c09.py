"""C09 — ellipsis conversion touches only three-dot runs in prose.

Monitors:
  func  the real typography.ellipses.ellipses over ALL strings of <= 7 symbols from an 8-symbol alphabet
        (letter, space, dot, quote, comma, newline, question mark, the ellipsis character itself): the result
        differs from the input only by '...' -> U+2026 and by spaces directly around that run; a string
        without a three-dot run is returned unchanged; applying it again changes nothing
  diff  documents: reformat_text(x, ellipses=True, ...) vs (..., ellipses=False, ...): equal document trees
        once U+2026 is mapped back to '...' and the spaces around it dropped; equal literal-span sequences
        (code, tags, HTML, URLs); a second pass with the option on changes nothing
"""
from __future__ import annotations

import itertools
import re

from vf import astn, fm
from vf.core import Collector
from vf.protect import protected
from vf.docbase import DocProp, drop_protective_escapes, ellipsis_mechanism, first_line_diff, opts_key, rand_opts
from vf.spans import first_diff as span_diff
from vf.spans import spans

ALPHABET = ["a", " ", ".", '"', ",", "\n", "?", "…"]
_RUN = re.compile(r"[ ]*(\.{3,}|…)[ ]*")
_WS = re.compile(r"\s+")


def canon(t: str) -> str:
    """Map the ellipsis character back to three dots and drop the spaces directly around every run."""
    t = t.replace("…", "...")
    return _RUN.sub(lambda m: m.group(1), t)


def canon_tree(n):
    if isinstance(n, tuple):
        if n and n[0] == "T" and len(n) == 2 and isinstance(n[1], str):
            return ("T", _WS.sub(" ", canon(n[1])).strip())
        return tuple(canon_tree(x) for x in n)
    return n


def merge_text(n):
    """After canonicalisation neighbouring text nodes may need re-merging / empty ones dropping."""
    if not isinstance(n, tuple):
        return n
    out = []
    for x in n:
        x = merge_text(x)
        if isinstance(x, tuple) and x and x[0] == "T" and len(x) == 2:
            if x[1] == "":
                continue
        out.append(x)
    return tuple(out)


_PROT = re.compile(r"\\(?=[-+*>#=|~`_])|(?<![\w\\])\d+(\\)(?=[.)])")
_START_ZONE = re.compile(r"(?:[-*+] |\d+[.)] |\[[ xX]\] )*")


def _escapes(t: str):
    """(text without white space and without protective backslashes, {position in it: the backslash stands at the start of a line})"""
    t = canon(re.sub(r"(?m)^[ >]+", "", t))
    # the label of a full reference is not text (the spans compare it): a shortcut reference whose text was converted is
    # written with its label spelled out, '[so on …][so on ...]', and still points to the same definition
    t = re.sub(r"\]\[[^\]\n]*\]", "]", t)
    flat, where = [], {}
    n = 0
    for line in t.split("\n"):
        zone = _START_ZONE.match(line).end()
        k = 0
        for m in _PROT.finditer(line):
            bs = m.start(1) if m.group(1) is not None else m.start()
            seg = line[k:bs]
            flat.append(seg)
            n += len(_WS.sub("", seg))
            first_word_start = zone if m.group(1) is None else m.start()
            where[n] = (m.start() if m.group(1) is None else m.start()) == zone or first_word_start == zone
            k = bs + 1
        flat.append(line[k:])
        n += len(_WS.sub("", line[k:]))
    return _WS.sub("", "".join(flat)), where


def other_characters_differ(off: str, on: str):
    """Every other character of the text, as written (the trees compare text after escapes are resolved): the two outputs may
    differ in line breaks and in the backslash that protects a marker-like word at the START of a line (the conversion changes
    line lengths, so the re-wrap puts other words first on a line) -- in nothing else. None when that holds."""
    ta, wa = _escapes(off)
    tb, wb = _escapes(on)
    if ta != tb:
        k = next((i for i, (x, y) in enumerate(zip(ta, tb)) if x != y), min(len(ta), len(tb)))
        return {"off": ta[max(0, k - 30):k + 30], "on": tb[max(0, k - 30):k + 30]}
    for name, mine, other, text in (("on", wb, wa, tb), ("off", wa, wb, ta)):
        for pos, at_start in mine.items():
            if pos not in other and not at_start:
                return {"backslash_only_in": name, "not_at_a_line_start_before": text[pos:pos + 30], "after": text[max(0, pos - 30):pos]}
    return None


class C09(DocProp):
    id = "C09"
    once_kinds = ("exh",)
    rule = ("cases: (a) exhaustive: every string of <= 7 symbols over [a space . \" , newline ? U+2026] through "
            "ellipses() (2,396,745 strings, split over shards by the first two symbols); (b) G-doc documents (profiles "
            "typo, core, tags: dot runs in prose, in code, in tags, in URLs) x random settings of every other option, "
            "on/off differential and second pass. Non-trivial: the option changed the text; distinct by hash.")
    assumptions = ["document trees are read with flowmark's own reader; text nodes are compared after mapping U+2026 back to "
                   "'...' and deleting the spaces directly around dot runs"]
    deciding = {"func": {"quick": 2396745, "thorough": 2396745}, "diff": {"quick": 1500, "thorough": 15000}, "plain": {"quick": 500, "thorough": 5000}}
    profiles = ["typo", "typo", "core", "tags"]
    ndocs = {"quick": 50, "thorough": 500}
    soft_timeout = 300.0
    hard_timeout = 900.0

    def cases(self, tier, seed, shard, nshards):
        blocks = [(a, b) for a in range(8) for b in range(8)]
        for bi, ab in enumerate(blocks):
            if bi % nshards == shard:
                yield {"kind": "exh", "first": list(ab)}
        if shard == 0:
            yield {"kind": "exh", "first": []}
        for r, c in self.doc_cases(tier, seed, shard, nshards):
            c["opts"] = [rand_opts(r), rand_opts(r), rand_opts(r, widths=[0, 30, 88])]
            yield c

    def setup_worker(self, col, tier):
        from flowmark.typography.ellipses import ellipses
        self.ell = ellipses

    def check(self, case, col: Collector):
        if case["kind"] == "exh":
            return self._exh(case, col)
        text, feats = self.load(case)
        self.feats_hist(col, feats)
        # "every other option setting" includes plaintext mode, where there is no tree: the textual span scanner decides
        col.case()
        o = dict(case["opts"][0], plaintext=True)
        off = fm.fmt(text, **dict(o, ellipses=False))
        on = fm.fmt(text, **dict(o, ellipses=True))
        if isinstance(on, str) and isinstance(off, str):
            col.mon("plain")
            lit = lambda t: [_WS.sub(" ", t[a:b]) for a, b, k in protected(t) if k != "esc"]  # noqa: E731
            if lit(on) != lit(off):
                df = span_diff(lit(off), lit(on))
                col.violation("plain", "C09/plaintext/literal-span-changed", dict(case, opts=[o]), {"off": repr(df[1])[:200], "on": repr(df[2])[:200]})
            elif _WS.sub("", canon(on)) != _WS.sub("", canon(off)):
                col.violation("plain", "C09/plaintext/other-text-changed", dict(case, opts=[o]), {"diff": first_line_diff(off, on)})
        for o in case["opts"]:
            col.case()
            o = dict(o, plaintext=False)
            off = fm.fmt(text, **dict(o, ellipses=False))
            on = fm.fmt(text, **dict(o, ellipses=True))
            sub = dict(case, opts=[o])
            if isinstance(on, fm.Raised) or isinstance(off, fm.Raised):
                if isinstance(on, fm.Raised) and not isinstance(off, fm.Raised):
                    col.violation("diff", f"C09/raised-only-with-option/{on.kind}", sub, on.text)
                continue
            col.mon("diff")
            if on != off:
                col.distinct(case.get("seed", text), opts_key(o))
            if "..." not in text and "…" not in text and on != off:
                col.violation("diff", "C09/diff/changed-a-document-without-dot-runs", sub, {"diff": first_line_diff(off, on)})
                continue
            ta, tb = astn.tree(off), astn.tree(on)
            ca, cb = merge_text(canon_tree(ta)), merge_text(canon_tree(tb))
            if ca != cb:
                df = astn.first_diff(ca, cb)
                col.violation("diff", "C09/diff/structure-or-text-changed", sub,
                              {"path": list(df[0]), "off": repr(df[1])[:300], "on": repr(df[2])[:300]})
                continue
            sa, sb = spans(ta), spans(tb)
            if sa != sb:
                df = span_diff(sa, sb)
                col.violation("diff", f"C09/diff/literal-span-changed/{(df[1] or df[2])[0]}", sub,
                              {"off": repr(df[1])[:200], "on": repr(df[2])[:200]})
                continue
            # every other character of the text, as written (the trees above compare text after escapes are resolved): the two
            # outputs may differ in line breaks and in the backslash that protects a marker-like word at the START of a line
            # (the conversion changes line lengths, so the re-wrap puts other words first on a line), in nothing else
            bad = other_characters_differ(off, on)
            if bad:
                col.violation("diff", "C09/diff/other-characters-changed", sub, bad)
                continue
            # "applying it again changes nothing": what the OPTION does on a second application, i.e. formatting the output once
            # more with and without it (a second pass that changes something either way is C02's business, not this option's)
            again = fm.fmt(on, **dict(o, ellipses=True))
            again_without = fm.fmt(on, **dict(o, ellipses=False))
            if isinstance(again, str) and again != on and again == again_without:
                col.count("second_pass_changes_unrelated_to_the_option_left_to_C02")
            elif isinstance(again, str) and again != on:
                base_again = fm.fmt(off, **dict(o, ellipses=False))
                dd = first_line_diff(on, again)
                desc = "C09/diff/second-pass-changes"
                if base_again == off or True:
                    unq = (lambda t: t.translate({0x201c: '"', 0x201d: '"', 0x2018: "'", 0x2019: "'"})) if o.get("smartquotes") else (lambda t: t)
                    sq = lambda t: re.sub(r"\s+", "", drop_protective_escapes(canon(re.sub(r"(?m)^[ >]+", "", unq(t)))))  # noqa: E731
                    em = ellipsis_mechanism(on, again)
                    if sq(on) == sq(again) and em == "ellipsis-at-line-start":
                        desc = "C09/diff/second-pass-converts-a-run-left-by-the-first"
                    elif sq(on) == sq(again) and em:
                        desc = f"C09/diff/second-pass-converts-a-run/{em}"
                col.violation("diff", desc, sub, {"line": dd[0], "pass1": dd[1], "pass2": dd[2]})
        if col.evaluations % 197 == 0:
            col.sample({"seed": case.get("seed"), "profile": case.get("profile"), "opts": case["opts"][0]})

    def _exh(self, case, col):
        first = [ALPHABET[i] for i in case["first"]]
        n = 0
        lens = range(0, 6) if first else [0, 1]
        ell = self.ell
        for L in lens:
            for rest in itertools.product(ALPHABET, repeat=L):
                s = "".join(first) + "".join(rest)
                n += 1
                out = fm.call(ell, s)
                if out == s:
                    continue
                if isinstance(out, fm.Raised):
                    col.violation("func", f"C09/func/raised/{out.kind}", {"kind": "string", "s": s}, out.text)
                    continue
                col.distinct("s", s)
                if "..." not in s:
                    col.violation("func", "C09/func/changed-a-string-without-three-dots", {"kind": "string", "s": s}, {"out": out})
                elif canon(out) != canon(s) or out.count("\n") != s.count("\n"):
                    col.violation("func", "C09/func/not-confined-to-dot-run-and-adjacent-spaces", {"kind": "string", "s": s}, {"out": out})
                else:
                    again = fm.call(ell, out)
                    if again != out:
                        col.violation("func", "C09/func/not-idempotent", {"kind": "string", "s": s}, {"out": out, "again": again})
        col.case(n)
        col.mon("func", n)
        col.count("exhaustive_strings", n)

    def extra_evidence(self, col, tier):
        return {"exhaustive": col.counters.get("exhaustive_strings", 0) == 2396745,
                "exhaustive_note": "the function-level sub-space (all strings of <= 7 alphabet symbols incl. the empty string) is enumerated completely"}


PROP = C09()
