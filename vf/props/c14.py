"""C14 — in-place formatting never leaves a damaged or half-written file (fault enumeration).

For every scenario (single / multi-file, with and without backup, pre-existing .orig, symlinked input,
stdin -> -o new / existing / nested path, undecodable or missing file at each position, formatter raising)
the real CLI entry point flowmark.cli.main(argv) is run in a scratch directory and, for EVERY index k:
  fault      the k-th file-system audit event of the run (open, os.rename, os.mkdir, os.remove, ...) raises OSError
  crash      the run happens in a forked child that dies (os._exit) at the k-th file-system audit event
  linecrash  the forked child dies at the k-th executed source line inside the dynamic extent of the run, for code
             living in flowmark/reformat_api.py, strif and pathlib (sys.monitoring LINE events: source-free
             failpoints between "opened/truncated" and "written", "written" and "renamed", ...)
After each, the END STATE is judged from the statement alone: every target holds its complete old or complete new
content (with backups on: or is absent while <target>.orig holds the old content), every other file is untouched or
fully formatted, an input is never modified without --inplace, and when reading / decoding / formatting fails nothing
belonging to that file is modified. A trace monitor checks the operations themselves (no write-type operation names
an input without --inplace; none at all before a failed read).
thorough adds: the real executable under strace with injected syscall errors and SIGKILL at the k-th syscall.
"""
from __future__ import annotations

import contextlib
import errno
import io
import json
import os
import shutil
import subprocess
import sys
import tempfile

from vf import fm
from vf.core import Collector, Inconclusive, Prop, shard_rng

OLD = {"a.md": "Hello   world of   text that is long enough to be wrapped somewhere around here, yes indeed it is.\n\nsecond    para\n" * 3,
       "b.md": "# Title\n\n- item   one\n- item two\n\nBody   text.\n", "c.md": "*emph*   and `code`   here.\n\n> quote   text\n",
       "d.md": "Last   file   content.\n"}
WRITE_EVENTS = ("open", "os.rename", "os.replace", "os.mkdir", "os.remove", "os.unlink", "os.rmdir", "os.truncate", "os.link", "os.symlink",
                "os.chmod", "shutil.move", "shutil.copyfile", "os.utime")
_state = {"armed": False, "k": None, "mode": None, "n": 0, "log": [], "root": None}
_hook_installed = [False]


def _hook(ev, args):
    st = _state
    if not st["armed"] or ev not in WRITE_EVENTS:
        return
    a0 = args[0] if args else None
    if isinstance(a0, bytes):
        a0 = a0.decode("utf-8", "replace")
    if isinstance(a0, int) or a0 is None:
        return
    a0 = os.fspath(a0)
    p = a0 if os.path.isabs(a0) else os.path.join(os.getcwd(), a0)
    if not p.startswith(st["root"]):
        return
    mode = ""
    if ev == "open":
        mode = str(args[1]) if len(args) > 1 and args[1] is not None else "r"
        flags = args[2] if len(args) > 2 else 0
        writeish = any(c in mode for c in "wax+") or (isinstance(flags, int) and flags & (os.O_WRONLY | os.O_RDWR | os.O_CREAT | os.O_TRUNC))
        mode = "write" if writeish else "read"
    st["n"] += 1
    rel = [os.path.relpath(os.fspath(x), st["root"]) if isinstance(x, (str, os.PathLike)) and str(x).startswith(st["root"]) else None
           for x in args[:2]]
    st["log"].append((ev, mode, rel[0], rel[1] if len(rel) > 1 else None))
    if st["k"] == st["n"]:
        if st["mode"] == "crash":
            os._exit(77)
        if st["mode"] == "fault":
            st["armed"] = False
            raise OSError(errno.EIO, "injected by vf", a0)
        if st["mode"] == "interrupt":
            st["armed"] = False
            raise KeyboardInterrupt("injected by vf")  # Ctrl-C: not an Exception, so `except Exception` clean-up code does not run


def scenarios():
    S = []
    for nb in (False, True):
        S.append({"name": f"inplace{'-nobackup' if nb else ''}", "files": ["a.md"], "argv": ["-i"] + (["--nobackup"] if nb else []) + ["a.md"]})
        S.append({"name": f"inplace-multi{'-nobackup' if nb else ''}", "files": ["a.md", "b.md", "c.md"],
                  "argv": ["-i"] + (["--nobackup"] if nb else []) + ["a.md", "b.md", "c.md"]})
    S.append({"name": "inplace-existing-orig", "files": ["a.md", "b.md"], "stale_orig": ["a.md", "b.md"], "argv": ["-i", "a.md", "b.md"]})
    S.append({"name": "auto", "files": ["a.md", "b.md"], "argv": ["--auto", "a.md", "b.md"]})
    # the same file named twice: the backup must still hold the ORIGINAL content
    S.append({"name": "inplace-same-file-twice", "files": ["a.md", "b.md"], "argv": ["-i", "a.md", "b.md", "./a.md"]})
    S.append({"name": "inplace-symlink", "files": ["real.md"], "symlink": ("link.md", "real.md"), "argv": ["-i", "link.md"], "content": {"real.md": OLD["a.md"]}})
    S.append({"name": "stdin-to-new-output", "files": [], "stdin": OLD["a.md"], "argv": ["-o", "out.md", "-"], "outputs": ["out.md"]})
    S.append({"name": "stdin-to-existing-output", "files": ["b.md"], "stdin": OLD["a.md"], "argv": ["-o", "b.md", "-"], "outputs": ["b.md"], "output_from_stdin": True})
    S.append({"name": "stdin-to-nested-output", "files": [], "stdin": OLD["a.md"], "argv": ["-o", "x/y/out.md", "-"], "outputs": ["x/y/out.md"]})
    S.append({"name": "file-to-new-output", "files": ["a.md"], "argv": ["-o", "out.md", "a.md"], "outputs": ["out.md"], "no_inplace": True})
    S.append({"name": "stdout-only", "files": ["a.md", "b.md"], "argv": ["a.md", "b.md"], "no_inplace": True})
    # every switch except --inplace / --auto: the inputs are never touched
    S.append({"name": "nobackup-without-inplace", "files": ["a.md", "b.md"], "argv": ["--nobackup", "a.md", "b.md"], "no_inplace": True})
    S.append({"name": "all-switches-without-inplace", "files": ["a.md"], "argv": ["--nobackup", "-s", "--cleanups", "--smartquotes", "--ellipses", "-w", "40", "a.md"],
              "no_inplace": True})
    for pos in range(3):
        names = ["a.md", "b.md", "c.md"]
        bad = names[pos]
        S.append({"name": f"multi-undecodable-at-{pos}", "files": names, "undecodable": bad, "stale_orig": ["c.md"], "argv": ["-i"] + names})
        S.append({"name": f"multi-missing-at-{pos}", "files": [n for n in names if n != bad], "missing": bad, "stale_orig": [n for n in names if n != bad],
                  "argv": ["-i"] + names})
        S.append({"name": f"multi-formatter-raises-at-{pos}", "files": names, "raise_on": bad, "argv": ["-i", "--nobackup"] + names})
    S.append({"name": "inplace-semantic-opts", "files": ["a.md", "d.md"], "argv": ["-i", "--nobackup", "-s", "-w", "40", "a.md", "d.md"]})
    # the documents on ANOTHER file system than the temporary directory of the process (a rename across file systems is
    # impossible: code that prepares its output under $TMPDIR falls back to copying over the target)
    for name in ("inplace", "inplace-nobackup", "stdin-to-existing-output", "file-to-new-output"):
        S.append(dict(next(x for x in S if x["name"] == name), name=name + "-other-filesystem", xdev=True))
    # a document that has a second hard link (not an input): the other name keeps the old content whatever happens
    S.append({"name": "inplace-nobackup-hardlinked", "files": ["a.md"], "hardlink": ("a.md", "also-a.md"), "argv": ["-i", "--nobackup", "a.md"]})
    S.append({"name": "auto-hardlinked-multi", "files": ["a.md", "b.md"], "hardlink": ("b.md", "also-b.md"), "argv": ["--auto", "a.md", "b.md"]})
    # a file name so long that "<name><unique suffix>.partial" does not fit into a directory entry (today: refused, file untouched)
    LONG = "n" * 238 + ".md"
    S.append({"name": "inplace-nobackup-long-name-other-filesystem", "files": [LONG], "argv": ["-i", "--nobackup", LONG], "content": {LONG: OLD["a.md"]}, "xdev": True})
    S.append({"name": "inplace-long-name", "files": [LONG, "b.md"], "argv": ["-i", LONG, "b.md"], "content": {LONG: OLD["a.md"]}})
    # the same file reached directly and through a symlinked DIRECTORY: still one file, one backup of the original
    S.append({"name": "inplace-same-file-through-symlinked-dir", "files": ["docs/guide.md", "b.md"], "mkdirs": ["docs"], "dirlink": ("current", "docs"),
              "argv": ["-i", "docs/guide.md", "b.md", "current/guide.md"], "content": {"docs/guide.md": OLD["a.md"]}})
    return S


def other_filesystem_dir() -> str | None:
    """A writable directory on a different file system than tempfile.gettempdir(), or None."""
    try:
        here = os.stat(tempfile.gettempdir()).st_dev
        for cand in ("/dev/shm", "/run/shm", os.path.expanduser("~"), "/var/tmp"):
            if os.path.isdir(cand) and os.access(cand, os.W_OK) and os.stat(cand).st_dev != here:
                return cand
    except OSError:
        pass
    return None


class C14(Prop):
    id = "C14"
    once_kinds = ("enumerate", "strace")
    level = "fault_enumeration"
    rule = ("cases: 35 scenarios (five of them with the documents on another file system than the temporary directory) x {fault at every file-system audit event, crash (fork + _exit) at every file-system audit event, "
            "crash at every executed line inside flowmark/reformat_api.py + strif + pathlib during the run}; each injection "
            "point is one evaluation and is followed by an end-state check of the whole scratch directory. Non-trivial: the "
            "injection point was reached (the run really died / failed there); distinct by (scenario, kind, k). The point "
            "space of each scenario is enumerated completely (every k from 1 to the number of events of the clean run).")
    assumptions = ["crash = process death between two Python-level operations / source lines; power loss with un-synced data is "
                   "not modelled (the property does not ask for it)",
                   "the new content of every file is taken from a clean run of the same scenario"]
    deciding = {"fault": {"quick": 100, "thorough": 100}, "crash": {"quick": 100, "thorough": 100}, "linecrash": {"quick": 1500, "thorough": 8000}, "trace": 15}
    soft_timeout = 900.0
    hard_timeout = 2400.0

    def nshards(self, tier):
        return 16

    def cases(self, tier, seed, shard, nshards):
        S = scenarios()
        for i, sc in enumerate(S):
            if i % nshards == shard:
                yield {"kind": "enumerate", "scenario": sc["name"], "line_stride": 1 if (tier == "thorough" or i % 3 == shard % 3) else 3}
        if tier == "thorough" and shard < 6:
            yield {"kind": "strace", "scenario": ["inplace", "inplace-nobackup", "inplace-multi", "auto", "multi-undecodable-at-1", "stdin-to-new-output"][shard]}

    def setup_worker(self, col, tier):
        if not _hook_installed[0]:
            sys.addaudithook(_hook)
            _hook_installed[0] = True
        from flowmark import cli, reformat_api
        self.cli = cli
        self.api = reformat_api
        self.by_name = {s["name"]: s for s in scenarios()}

    # ------------------------------------------------------------------ scenario mechanics
    def setup_dir(self, sc, root):
        shutil.rmtree(root, ignore_errors=True)
        os.makedirs(root)
        for d in sc.get("mkdirs", []):
            os.makedirs(os.path.join(root, d))
        content = dict(OLD)
        content.update(sc.get("content", {}))
        for f in sc["files"]:
            data = content.get(f, OLD.get(f, "x   y\n"))
            with open(os.path.join(root, f), "wb") as fh:
                if sc.get("undecodable") == f:
                    fh.write(b"caf\xe9 latin-1 bytes \xff\xfe\n")
                else:
                    fh.write(data.encode())
        for f in sc.get("stale_orig", []):
            with open(os.path.join(root, f + ".orig"), "w") as fh:
                fh.write("STALE BACKUP of " + f + " from an earlier run\n")
        if "symlink" in sc:
            os.symlink(sc["symlink"][1], os.path.join(root, sc["symlink"][0]))
        if "hardlink" in sc:
            os.link(os.path.join(root, sc["hardlink"][0]), os.path.join(root, sc["hardlink"][1]))
        if "dirlink" in sc:
            os.symlink(sc["dirlink"][1], os.path.join(root, sc["dirlink"][0]))

    def snapshot(self, root):
        snap = {}
        for dp, dn, fn in os.walk(root):
            for f in fn:
                p = os.path.join(dp, f)
                rel = os.path.relpath(p, root)
                try:
                    with open(p, "rb") as fh:
                        snap[rel] = ("link->" + os.readlink(p) + "|" if os.path.islink(p) else "") + fh.read().decode("utf-8", "replace")
                except OSError as e:
                    snap[rel] = f"<unreadable {e.errno}>"
        return snap

    def run_cli(self, sc, root, k=None, mode=None):
        _state.update(armed=True, k=k, mode=mode, n=0, log=[], root=os.path.realpath(root))
        cwd = os.getcwd()
        os.chdir(root)
        old_stdin = sys.stdin
        orig_rt = self.api.reformat_text
        if sc.get("raise_on"):
            bad_text = OLD[sc["raise_on"]]

            def stub(text, *a, **kw):
                if text == bad_text:
                    raise RuntimeError("formatter failed (injected by vf)")
                return orig_rt(text, *a, **kw)
            self.api.reformat_text = stub
        try:
            if "stdin" in sc:
                sys.stdin = io.StringIO(sc["stdin"])
            with contextlib.redirect_stdout(io.StringIO()), contextlib.redirect_stderr(io.StringIO()):
                try:
                    rc = self.cli.main(list(sc["argv"]))
                except SystemExit as e:
                    rc = e.code if isinstance(e.code, int) else 1
                except OSError:
                    rc = 70  # the injected error escaped main(): still a failure exit for a real process
                except KeyboardInterrupt:
                    rc = 130
        finally:
            _state["armed"] = False
            self.api.reformat_text = orig_rt
            sys.stdin = old_stdin
            os.chdir(cwd)
        return rc

    def judge(self, sc, start, clean, snap, what, col, case):
        """End-state oracle (statement only). start: directory before the run, clean: after an uninjected run."""
        inplace = not sc.get("no_inplace") and "stdin" not in sc
        backup = inplace and "--nobackup" not in sc["argv"] and "--auto" not in sc["argv"]
        bad = sc.get("undecodable") or sc.get("raise_on")
        targets = list(sc["files"]) if inplace else []
        link = sc.get("symlink")

        def viol(kind, detail):
            col.violation(what["monitor"], f"C14/{kind}/{sc['name'].split('-at-')[0]}/{what['monitor']}", dict(case, point=what),
                          dict(detail, point=what))

        for f in targets:
            old, new = start.get(f), clean.get(f)
            cur = snap.get(f)
            if f == bad or (not inplace):
                if cur != old:
                    viol("failed-or-unrequested-file-modified", {"file": f, "got": (cur or "<absent>")[:80]})
                continue
            if cur == old or cur == new:
                if backup and cur != old and snap.get(f + ".orig") != old:
                    # "with backups on, the old content is at least recoverable from the .orig file": whenever the target no
                    # longer holds it
                    viol("backup-does-not-hold-the-old-content", {"file": f, "orig": (snap.get(f + ".orig") or "<none>")[:60], "old_head": (old or "")[:40]})
                continue
            if cur is None and backup and snap.get(f + ".orig") == old:
                continue
            viol("target-neither-old-nor-new", {"file": f, "old_head": (old or "")[:40], "new_head": (new or "")[:40],
                                                   "got": "<absent>" if cur is None else cur[:80], "orig": (snap.get(f + ".orig") or "<none>")[:40]})
        if link:
            ln, real = link
            cur = snap.get(ln)
            body = cur.split("|", 1)[1] if cur and cur.startswith("link->") else cur
            if body not in (start[real], clean.get(ln), clean.get(real)) and not (cur is None and snap.get(ln + ".orig")):
                viol("target-neither-old-nor-new", {"file": ln, "got": "<absent>" if cur is None else cur[:80]})
        if bad:
            for suffix in (".orig",):
                if (bad + suffix in snap) != (bad + suffix in start) or snap.get(bad + suffix) != start.get(bad + suffix):
                    viol("failed-file-backup-touched", {"file": bad + suffix})
        if not inplace:
            for f in sc["files"]:
                if f in sc.get("outputs", []):
                    continue
                if snap.get(f) != start.get(f):
                    viol("input-modified-without-inplace", {"file": f, "got": (snap.get(f) or "<absent>")[:80]})
        for out in sc.get("outputs", []):
            cur = snap.get(out)
            if cur is not None and cur != clean.get(out) and cur != start.get(out):
                viol("output-neither-old-nor-new", {"file": out, "got": cur[:80]})
        # nothing else may change except temp files and backups of the targets
        for f, v in snap.items():
            if f in targets or f in sc.get("outputs", []) or f.endswith(".partial") or ".partial" in f or f.endswith(".orig"):
                continue
            if link and f in link:
                continue
            if start.get(f) != v:
                viol("unrelated-file-changed", {"file": f})
        for f in start:
            if f not in snap and f not in targets and not f.endswith(".orig") and not (link and f in link):
                viol("unrelated-file-removed", {"file": f})

    def trace_rule(self, sc, log, col, case, rc):
        col.mon("trace")
        inputs = set(sc["files"]) - set(sc.get("outputs", []))
        inplace = not sc.get("no_inplace") and "stdin" not in sc
        if not inplace:
            for ev, mode, a, b in log:
                if (ev != "open" or mode == "write") and (a in inputs or b in inputs):
                    col.violation("trace", f"C14/trace/write-type-operation-on-input-without-inplace/{sc['name']}", case, {"event": [ev, mode, a, b]})
                    return

    # ------------------------------------------------------------------ enumeration
    def check(self, case, col: Collector):
        if case["kind"] == "strace":
            return self._check_strace(case, col)
        sc = self.by_name[case["scenario"]]
        xdir = other_filesystem_dir() if sc.get("xdev") else None
        if sc.get("xdev") and xdir is None:
            col.count("other_filesystem_unavailable_scenarios_skipped")
            col.note("no second writable file system: the other-filesystem scenarios were skipped")
            return
        base = tempfile.mkdtemp(prefix="vf-c14-", dir=xdir)
        root = os.path.join(base, "work")
        try:
            self.setup_dir(sc, root)
            start = self.snapshot(root)
            rc0 = self.run_cli(sc, root)
            log0 = list(_state["log"])
            clean = self.snapshot(root)
            self.trace_rule(sc, log0, col, case, rc0)
            # sanity of the clean run itself
            self.judge(sc, start, clean, clean, {"monitor": "fault", "k": 0, "event": "none (clean run)"}, col, case)
            # short writes: a write that the kernel accepts only partly (quota, RLIMIT_FSIZE, full disk). Only os.write() can be
            # made short from inside the interpreter (file objects loop in C until everything is written): enough for code
            # that writes with a single os.write() and drops its return value
            self.setup_dir(sc, root)
            real_write = os.write

            def short_write(fd, data):
                return real_write(fd, bytes(data)[:7]) if fd > 2 else real_write(fd, data)
            os.write = short_write
            try:
                self.run_cli(sc, root)
            finally:
                os.write = real_write
            col.case()
            col.mon("fault")
            col.count("short_write_runs")
            self.judge(sc, start, clean, self.snapshot(root), {"monitor": "fault", "k": -1, "event": "os.write accepts at most 7 bytes per call"}, col, case)
            n = len(log0)
            col.hist("events_per_scenario", f"{sc['name']}:{n}")
            for k in range(1, n + 1):
                ev = log0[k - 1]
                # fault
                self.setup_dir(sc, root)
                rc = self.run_cli(sc, root, k, "fault")
                col.case()
                col.mon("fault")
                col.distinct(sc["name"], "fault", k)
                col.hist("fault_points", f"{ev[0]}:{ev[1]}:{self.cls(ev[2])}")
                self.judge(sc, start, clean, self.snapshot(root), {"monitor": "fault", "k": k, "event": list(ev)}, col, case)
                # interrupt (KeyboardInterrupt raised at the same point)
                self.setup_dir(sc, root)
                self.run_cli(sc, root, k, "interrupt")
                col.case()
                col.mon("fault")
                col.count("interrupt_points")
                self.judge(sc, start, clean, self.snapshot(root), {"monitor": "fault", "k": k, "event": list(ev), "as": "KeyboardInterrupt"}, col, case)
                # crash
                self.setup_dir(sc, root)
                pid = os.fork()
                if pid == 0:
                    try:
                        self.run_cli(sc, root, k, "crash")
                    finally:
                        os._exit(0)
                _, st = os.waitpid(pid, 0)
                col.case()
                col.mon("crash")
                if os.WEXITSTATUS(st) == 77:
                    col.distinct(sc["name"], "crash", k)
                col.hist("crash_points", f"{ev[0]}:{ev[1]}:{self.cls(ev[2])}")
                self.judge(sc, start, clean, self.snapshot(root), {"monitor": "crash", "k": k, "event": list(ev)}, col, case)
            self.line_crashes(sc, root, start, clean, col, case)
            col.sample({"scenario": sc["name"], "argv": sc["argv"], "fs_events_of_clean_run": [list(e) for e in log0][:12], "exit_code": rc0})
        finally:
            shutil.rmtree(base, ignore_errors=True)

    @staticmethod
    def cls(p):
        if p is None:
            return "-"
        if ".partial" in p:
            return "tmp"
        if p.endswith(".orig"):
            return "backup"
        return "target" if p.endswith(".md") else "other"

    def line_crashes(self, sc, root, start, clean, col, case):
        mon = getattr(sys, "monitoring", None)
        if mon is None:
            col.inconcl("sys.monitoring unavailable: statement-level crash points cannot be enumerated")
            return
        import pathlib

        import strif.strif as strif_mod
        files = tuple(m.__file__ for m in (self.api, strif_mod, pathlib, shutil, tempfile))
        st = {"on": False, "k": None, "n": 0}
        tool = mon.OPTIMIZER_ID

        def on_line(code, line):
            if not st["on"]:
                return None
            if code.co_filename not in files:
                return mon.DISABLE
            st["n"] += 1
            if st["n"] == st["k"]:
                os._exit(77)
            return None
        try:
            mon.use_tool_id(tool, "vf-c14")
        except ValueError:
            pass
        mon.register_callback(tool, mon.events.LINE, on_line)

        def run(k):
            st.update(on=True, k=k, n=0)
            mon.set_events(tool, mon.events.LINE)
            try:
                self.run_cli(sc, root)
            finally:
                mon.set_events(tool, 0)
                st["on"] = False
        def on_line_interrupt(code, line):
            if not st["on"]:
                return None
            if code.co_filename not in files:
                return mon.DISABLE
            st["n"] += 1
            if st["n"] == st["k"]:
                st["on"] = False
                raise KeyboardInterrupt("injected by vf at a source line")
            return None
        try:
            self.setup_dir(sc, root)
            run(None)
            total = st["n"]
            # Ctrl-C arriving at the k-th executed line of the write path (in-process: clean-up code runs, unlike after a kill)
            mon.register_callback(tool, mon.events.LINE, on_line_interrupt)
            for k in range(1, total + 1, max(3, case.get("line_stride", 1) * 3)):
                self.setup_dir(sc, root)
                mon.restart_events()
                run(k)
                col.case()
                col.mon("linecrash")
                col.count("line_interrupt_points")
                self.judge(sc, start, clean, self.snapshot(root), {"monitor": "linecrash", "k": k, "of": total, "as": "KeyboardInterrupt"}, col, case)
            mon.register_callback(tool, mon.events.LINE, on_line)
            mon.restart_events()
            col.hist("line_points_per_scenario", f"{sc['name']}:{total}")
            for k in range(1, total + 1, case.get("line_stride", 1)):
                self.setup_dir(sc, root)
                pid = os.fork()
                if pid == 0:
                    try:
                        mon.restart_events()
                        run(k)
                    finally:
                        os._exit(0)
                _, wst = os.waitpid(pid, 0)
                col.case()
                col.mon("linecrash")
                if os.WEXITSTATUS(wst) == 77:
                    col.distinct(sc["name"], "line", k)
                self.judge(sc, start, clean, self.snapshot(root), {"monitor": "linecrash", "k": k, "of": total}, col, case)
        finally:
            mon.set_events(tool, 0)
            try:
                mon.free_tool_id(tool)
            except Exception:  # noqa: BLE001
                pass

    # ------------------------------------------------------------------ strace tier (real process)
    def _check_strace(self, case, col):
        if shutil.which("strace") is None:
            col.inconcl("strace not available")
            return
        sc = self.by_name[case["scenario"]]
        base = tempfile.mkdtemp(prefix="vf-c14s-")
        root = os.path.join(base, "work")
        env = dict(os.environ)
        cmd = [sys.executable, "-m", "flowmark.cli"] + list(sc["argv"])
        try:
            self.setup_dir(sc, root)
            start = self.snapshot(root)
            subprocess.run(cmd, cwd=root, env=env, input=sc.get("stdin"), text=True, capture_output=True, timeout=120)
            clean = self.snapshot(root)
            for syscall, what in (("rename", "error=EIO"), ("renameat2", "error=EIO"), ("write", "error=ENOSPC"), ("openat", "error=EACCES"),
                                  ("rename", "signal=KILL"), ("write", "signal=KILL"), ("close", "signal=KILL"), ("mkdir", "error=EIO")):
                for when in range(1, 7):
                    self.setup_dir(sc, root)
                    inj = f"inject={syscall}:{what}:when={when}" if "signal" in what else f"inject={syscall}:{what}:when={when}"
                    tracecmd = ["strace", "-f", "-o", "/dev/null", "-P", root, "-e", f"trace={syscall}", "-e", inj] + cmd
                    try:
                        subprocess.run(tracecmd, cwd=root, env=env, input=sc.get("stdin"), text=True, capture_output=True, timeout=120)
                    except subprocess.TimeoutExpired:
                        col.inconcl("strace run timed out")
                        continue
                    col.case()
                    col.mon("strace")
                    col.distinct(sc["name"], syscall, what, when)
                    self.judge(sc, start, clean, self.snapshot(root), {"monitor": "strace", "syscall": syscall, "inject": what, "when": when}, col, case)
        finally:
            shutil.rmtree(base, ignore_errors=True)


PROP = C14()
