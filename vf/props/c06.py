"""C06 — template tags and other atomic constructs are never split or displaced.

Monitors:
  units     paragraphs built from unbreakable units (template tags, HTML comments, inline HTML, code spans,
            links/images, and words glued to them without a space) with explicit gaps; formatted at widths
            1..60 in both modes inside real containers. The output must be exactly the same units in order,
            every gap that was whitespace still whitespace (space or line break), every gap that was empty
            still empty, and no line break anywhere inside a unit. Premise (checked at run time): at an
            unlimited width the paragraph comes back unchanged.
  wrapper   the same oracle on the public LineWrapper factories called directly (no Markdown reader)
  taglines  tag-delimited blocks (G-doc 'tags' profile): each tag line stays alone on an unindented line,
            the enclosed list/table/paragraph keeps its kind and is separated from the tag lines by a blank line
"""
from __future__ import annotations

import re

from vf import astn, fm
from vf.core import Collector, Prop, shard_rng
from vf.gen_doc import gen_doc
from vf.gen_para import long_atom, plain_word

_WS = re.compile(r"\s+")

ATOMS = {
    "tag": ["{% tag %}", "{% tag a=1 b=\"two words\" %}", "{% /tag %}", "{% field kind=\"string\" id=\"name\" label=\"Full Name\" %}",
            "{% if a > b and c %}", "{% progress value=\"50%\" label=\"half way there\" %}", "{% if 5 % 2 == 1 and x %}",
            "{% field hint=(\"Be brief.\") required=true %}"],
    "var": ["{{ var }}", "{{ a.b | filter(\"x y\") }}", "{{a}}", "{{ {\"a\": 1, \"b\": 2} | tojson }}"],
    "jcomment": ["{# note #}", "{# a longer comment here #}", "{# see issue #12 and PR #13 here #}"],
    "comment": ["<!-- c -->", "<!-- a longer comment here -->", "<!-- /c -->"],
    "html": ["<span class=\"a b\">", "</span>", "<br/>", "<a href=\"http://x.y/z\" title=\"t t\">", "</a>",
             "<a title=\"x > y zed\">", "<span data-x='a > b' class=\"c d\">"],  # a '>' inside a quoted attribute value does not end the tag
    "code": ["`x`", "`a b`", "`foo(bar, baz)`", "`--flag value`", "`` a`b c ``", "`a b c d e f`", "`print(\"Done.\") and exit`"],
    "link": ["[link](http://ex.com/a)", "[two words](http://ex.com/a_b?q=1&r=2)", "[a b c d](http://u.v \"T t\")",
             "![alt text](img.png)", "[*em* link](http://x.y/z)", "<https://example.org/path>",
             "[long link text that goes on and on](http://example.com/a/very/long/path/that/keeps/going)",
             "[the reply (\"Not now.\") was short](http://x.y)",
             # brackets inside the link text, parentheses inside the title and the destination
             "[a [b] c d](http://u.x)", "[a](http://u.x \"t (x) y zed\")", "![alt [1] text](img.png 'a (b) c')", "[e f](http://x.y/(a)b \"t t\")"],
    "paired": ["{% f %}{% /f %}", "<!-- f --><!-- /f -->", "{{ a }}{{ /a }}", "{# a #}{# /a #}", "{% f a=1 %} {% /f %}"],
}
SENTENCE_INSIDE = ["[with text inside. Another sentence](http://x.y)", "`end. Next`", "[dots. End](http://x.y/z)",
                   "{% tag note=\"ends here. Next\" %}"]
GLUE_L = ["(", "\"", "see:", "x=", "dir\\", "C:\\Users\\", "a\\\\"]  # (a backslash before a construct does not make it prose)
GLUE_R = [")", ",", ".", "\"", ";", "'s"]
CONTAINERS = [("", ""), ("- ", "  "), ("1. ", "   "), ("> ", "> "), ("> - ", ">   "), ("- > ", "  > ")]


def units_to_text(units, gaps) -> str:
    return "".join(u + g for u, g in zip(units, gaps + [""]))


def chunks_of(units, gaps) -> list[str]:
    """Maximal runs of units joined by empty gaps: each run is unbreakable."""
    out, cur = [], units[0]
    for u, g in zip(units[1:], gaps):
        if g == "":
            cur += u
        else:
            out.append(cur)
            cur = u
    out.append(cur)
    return out


def judge_units(chunks: list[str], body_lines: list[str], breaks: set | None = None):
    """Each output line must be a run of whole chunks joined by single spaces.
    breaks (optional) collects the indices i such that a line break follows chunk i."""
    pos = 0
    for li, ln in enumerate(body_lines):
        ln = ln.strip()
        if ln == "":
            return ("blank-line-in-paragraph", li, "")
        acc = ""
        while pos < len(chunks) and len(acc) < len(ln):
            acc = chunks[pos] if not acc else acc + " " + chunks[pos]
            pos += 1
        if acc != ln:
            joined = " ".join(chunks)
            flat = " ".join(x.strip() for x in body_lines)
            if _WS.sub("", joined) == _WS.sub("", flat):
                return ("unit-split-or-gap-changed", li, ln[:80])
            return ("text-changed", li, ln[:80])
        if breaks is not None and li < len(body_lines) - 1:
            breaks.add(pos - 1)
    if pos != len(chunks):
        return ("text-missing", len(body_lines), "")
    return None


_INNER_END = re.compile(r"(?<=[a-z][.?!]) (?=[A-Z])")


def split_hostile(chunks: list[str]):
    """Cut every chunk at a sentence end inside it ('... inside. Another ...'): returns the finer chunks and
    the set of indices after which the boundary is such an internal one."""
    out, internal = [], set()
    for c in chunks:
        if not _INNER_END.search(c):
            out.append(c)
            continue
        # once the sentence splitter has cut the unit in two, neither half is an atomic construct any more,
        # so every space inside it becomes a possible break: all of them belong to the same mechanism
        parts = c.split(" ")
        for k, p_ in enumerate(parts):
            out.append(p_)
            if k < len(parts) - 1:
                internal.add(len(out) - 1)
    return out, internal


class C06(Prop):
    id = "C06"
    rule = ("cases: paragraphs of 3..14 units drawn from plain words and atomic constructs (Jinja/Markdoc tags, "
            "variables, comments, HTML comments, inline HTML, code spans, links/images, paired tags), with gaps that "
            "are either one space or empty (adjacent tags, punctuation glued to a construct), in 6 container contexts, "
            "widths 1..60, both wrap modes, through reformat_text and through the public LineWrapper factories; plus "
            "G-doc 'tags' documents with tag-delimited paragraphs, lists and tables. Non-trivial: the output has >= 2 "
            "lines and the paragraph contains >= 1 construct with an inner space or an empty gap; distinct by hash.")
    assumptions = ["the constructs are generated, so their boundaries are ground truth (no pattern of flowmark is imported)",
                   "a case is judged only if the paragraph survives formatting at an unlimited width unchanged (premise)"]
    deciding = {"units": {"quick": 6000, "thorough": 60000}, "wrapper": {"quick": 3000, "thorough": 30000},
                "taglines": {"quick": 300, "thorough": 3000}}
    soft_timeout = 30.0

    def cases(self, tier, seed, shard, nshards):
        r = shard_rng(seed, self.id, shard)
        n = 450 if tier == "quick" else 4500
        kinds = list(ATOMS)
        for i in range(n):
            k = r.randint(3, 14)
            if i % 150 == 7:
                k = r.randint(1300, 1700)  # one wrap unit of more than 8 KB
            units, gaps, meta = [], [], []
            for j in range(k):
                x = r.random()
                if i % 9 == 4 and j == k // 2:
                    # a construct of several hundred to several thousand characters (a length bound a pattern might have)
                    u = long_atom(r)
                    meta.append("long-atom")
                elif x < 0.45:
                    kind = r.choice(kinds)
                    u = r.choice(ATOMS[kind])
                    meta.append(kind)
                elif x < 0.47:
                    u = r.choice(SENTENCE_INSIDE)
                    meta.append("sentence-inside")
                else:
                    u = plain_word(r, 9)
                    if u[:1] in "-+*#>=|~`[<{\\" or (u[:1].isdigit() and u[-1:] in ".)"):
                        u = "w" + u
                    if "`" in u or "[" in u or "<" in u or "{" in u:
                        u = "word"
                    meta.append("w")
                units.append(u)
            for j in range(k - 1):
                a, b = meta[j], meta[j + 1]
                glue = " "
                x = r.random()
                if a != "w" and b != "w" and a == b and a in ("tag", "var", "jcomment", "comment") and x < 0.35:
                    glue = ""  # adjacent tags of one kind
                elif (a == "w") != (b == "w") and x < 0.2:
                    # punctuation glued to a construct
                    if a == "w":
                        units[j] = r.choice(GLUE_L)
                    else:
                        units[j + 1] = r.choice(GLUE_R)
                    glue = ""
                gaps.append(glue)
            if "`end. Next`" in units:
                # a code span cut in two re-pairs every later backtick in the paragraph: keep it the only one
                for j in range(k):
                    if "`" in units[j] and units[j] != "`end. Next`":
                        units[j], meta[j] = "word", "w"
            if meta[0] != "w" or units[0] in GLUE_L + GLUE_R:
                units.insert(0, "Start")
                gaps.insert(0, " ")
                meta.insert(0, "w")
            ii, si = r.choice(CONTAINERS)
            yield {"kind": "units", "units": units, "gaps": gaps, "ii": ii, "si": si, "meta": sorted(set(meta)),
                   "opts": [[r.randint(1, 12), r.random() < 0.5], [r.randint(8, 60), r.random() < 0.5], [r.randint(1, 40), r.random() < 0.5]]}
        for i in range(20 if tier == "quick" else 200):
            # a tag alone on the line after a hard line break, followed by more text
            tag = r.choice(["{{signature}}", "{%endif%}", "{#todo#}", "<!--marker-->", "{{ signature }}", "{% endif %}"])
            a = " ".join(plain_word(r, 8) for _ in range(r.randint(2, 6)))
            b = " ".join(plain_word(r, 8) for _ in range(r.randint(2, 8)))
            yield {"kind": "hbtag", "text": f"Start {a}{r.choice([chr(92), '  '])}\n{tag}\nThen {b}\n", "tag": tag,
                   "opts": [[88, False], [88, True], [r.randint(10, 40), r.random() < 0.5]]}
        for i in range(6 if tier == "quick" else 60):
            # a heading directly followed by a table (or list) inside a pair of tag lines: the closing tag keeps its blank line
            o_, c_ = r.choice([("{% field %}", "{% /field %}"), ("<!-- s -->", "<!-- /s -->"), ("{# a #}", "{# /a #}")])
            blk = r.choice(["| a | b |\n|---|---|\n| c | d |", "- one\n- two", "| x |\n|:-:|\n| y |"])
            gap = r.choice(["", "\n"])
            yield {"kind": "hbtag", "text": f"{o_}\n\n## Title {plain_word(r, 6)}\n{gap}{blk}\n\n{c_}\n\nafter\n", "tag": c_, "blank_before_tag": True,
                   "opts": [[88, False], [88, True], [r.randint(20, 60), r.random() < 0.5]]}
        nd = 25 if tier == "quick" else 250
        for i in range(nd):
            yield {"kind": "tagdoc", "seed": r.getrandbits(40), "opts": [[88, False], [r.randint(10, 60), r.random() < 0.5], [0, True]]}

    def check(self, case, col: Collector):
        getattr(self, "_check_" + case["kind"])(case, col)

    def _check_hbtag(self, case, col):
        for (w, sem) in case["opts"]:
            col.case()
            col.mon("taglines")
            out = fm.fmt(case["text"], width=w, semantic=sem)
            if isinstance(out, fm.Raised):
                col.count("raised_cases_left_to_C12")
                continue
            col.distinct("hbtag", case["text"], w, sem)
            lines_ = out.split("\n")
            if case["tag"] not in lines_:
                col.violation("taglines", "C06/tagline/not-alone-on-unindented-line/after-hard-break", dict(case, opts=[[w, sem]]), {"output": out[:300]})
            elif case.get("blank_before_tag") and lines_[lines_.index(case["tag"]) - 1].strip() != "":
                col.violation("taglines", "C06/tagline/no-blank-line-before-closing-tag", dict(case, opts=[[w, sem]]), {"output": out[:300]})

    # ------------------------------------------------------------------ units
    def _check_units(self, case, col):
        units, gaps, ii, si = case["units"], case["gaps"], case["ii"], case["si"]
        para = units_to_text(units, gaps)
        chunks = [_WS.sub(" ", c) for c in chunks_of(units, gaps)]
        hostile = "sentence-inside" in case["meta"]
        for m in case["meta"]:
            col.hist("unit_kinds", m)
        for (w, sem) in case["opts"]:
            mode = "semantic" if sem else "fill"
            sub = dict(case, opts=[[w, sem]])
            # --- through the whole formatter
            col.case()
            text = ii + para + "\n"
            wide = fm.fmt(text, width=10 ** 6, semantic=False)
            out = fm.fmt(text, width=w, semantic=sem)
            if isinstance(wide, fm.Raised) or isinstance(out, fm.Raised):
                col.count("raised_cases_left_to_C12")
            elif _WS.sub(" ", wide).strip() != _WS.sub(" ", text).strip():
                col.count("premise_failed_paragraph_not_reproduced_at_unlimited_width")
            else:
                col.mon("units")
                lines = out.rstrip("\n").split("\n")
                body = [lines[0][len(ii):] if lines[0].startswith(ii) else lines[0]] + \
                       [ln[len(si):] if ln.startswith(si) else ln.lstrip(" >") for ln in lines[1:]]
                res = judge_units(chunks, body)
                if len(lines) >= 2 and (any(" " in c for c in chunks) or "" in gaps):
                    col.distinct("units", text, w, sem)
                if res:
                    col.violation("units", self.describe(res, chunks, body, mode, hostile), sub,
                                  {"why": res[0], "line": res[1], "got": res[2], "output": out[:300]})
                elif hostile:
                    col.count("hostile_units_held")
            # --- the public wrapper factories directly
            col.case()
            factory = fm.line_wrap_by_sentence if sem else fm.line_wrap_to_width
            wrapper = fm.call(factory, width=w, is_markdown=True)
            res2 = fm.call(wrapper, para, ii, si) if not isinstance(wrapper, fm.Raised) else wrapper
            if isinstance(res2, fm.Raised):
                col.count("raised_cases_left_to_C12")
                continue
            col.mon("wrapper")
            lines = res2.split("\n")
            body = [lines[0][len(ii):] if lines[0].startswith(ii) else lines[0]] + \
                   [ln[len(si):] if ln.startswith(si) else ln for ln in lines[1:]]
            res = judge_units(chunks, body)
            if len(lines) >= 2:
                col.distinct("wrapper", para, ii, w, sem)
            if res:
                col.violation("wrapper", self.describe(res, chunks, body, mode, hostile), sub,
                              {"why": res[0], "line": res[1], "got": res[2], "output": res2[:300]})
            col.hist("width", "1-12" if w <= 12 else ("13-40" if w <= 40 else "41-60"))
            col.hist("mode", mode)

    def describe(self, res, chunks, body, mode, hostile) -> str:
        if res[0] == "unit-split-or-gap-changed" and mode == "semantic" and hostile:
            # the listed mechanism: the ONLY cuts inside units are right after a sentence end inside the unit
            fine, internal = split_hostile(chunks)
            used: set = set()
            if judge_units(fine, body, used) is None and used & internal:
                return "C06/unit-split/semantic/sentence-end-inside-unit"
        return f"C06/{res[0]}/{mode}"

    # ------------------------------------------------------------------ tag lines
    def _check_tagdoc(self, case, col):
        d = gen_doc(case["seed"], "tags")
        blocks = [b for b in d.tree if b["t"] == "tagblock"]
        if not blocks:
            return
        import textwrap

        for (w, sem) in case["opts"]:
            col.case()
            out = fm.fmt(d.text, width=w, semantic=sem)
            sub = dict(case, opts=[[w, sem]])
            if isinstance(out, fm.Raised):
                col.count("raised_cases_left_to_C12")
                continue
            # docstring-style input: the same document uniformly indented is, by flowmark's documented
            # dedent, the same document; tag lines must be recognised all the same
            n = 1 + (case["seed"] + w) % 6
            # (not textwrap.indent: it splits lines like str.splitlines and would indent after a VT / FS inside a code line)
            ind = fm.fmt("\n".join((" " * n + ln) if ln.strip() else ln for ln in d.text.split("\n")), width=w, semantic=sem)
            col.mon("taglines")
            if not isinstance(ind, fm.Raised) and ind != out:
                from vf.docbase import first_line_diff
                dd = first_line_diff(out, ind)
                col.violation("taglines", "C06/tagline/uniformly-indented-input-formats-differently", dict(sub, indent=n),
                              {"indent": n, "line": dd[0], "plain": dd[1], "indented": dd[2]})
            lines = out.split("\n")
            pos = 0
            tree = astn.tree(out)
            top = tree[1]
            tpos = [0]
            for b in blocks:
                col.mon("taglines")
                col.distinct("tagdoc", case["seed"], w, sem, b["open"])
                col.hist("inner_kind", b["inner"]["t"] + ("/glued" if b["glued"] else "/spaced"))
                try:
                    i = lines.index(b["open"], pos)
                    j = lines.index(b["close"], i + 1)
                except ValueError:
                    col.violation("taglines", "C06/tagline/not-alone-on-unindented-line", sub,
                                  {"open": b["open"], "close": b["close"], "output_head": out[:400]})
                    break
                pos = j + 1
                inner = lines[i + 1:j]
                kind = b["inner"]["t"]
                seen = self.kind_between(top, b["open"], b["close"], tpos)
                if kind in ("list", "table"):
                    if not inner or inner[0].strip() != "" or inner[-1].strip() != "":
                        col.violation("taglines", f"C06/tagline/no-blank-line-around-{kind}", sub,
                                      {"open": b["open"], "between": inner[:6]})
                        continue
                    # the enclosed block keeps its kind (flowmark's own reader)
                    want = "LIST" if kind == "list" else "TABLE"
                    if seen is not None and want not in seen:
                        col.violation("taglines", f"C06/tagline/{kind}-became-{'+'.join(seen) or 'nothing'}", sub,
                                      {"open": b["open"], "between": inner[:6]})

    @staticmethod
    def kind_between(top, open_tag, close_tag, tpos):
        """Kinds of the top-level nodes between the next open-tag paragraph and its close-tag paragraph
        (searching from tpos[0] on, so that repeated tag names are matched in document order)."""
        def is_tag_par(n, tag):
            if n[0] != "P" or not n[-1]:
                return False
            txt = "".join((x[1] if x[0] in ("T", "HTML") else "") for x in n[-1])
            return _WS.sub(" ", txt).strip() == _WS.sub(" ", tag)
        for k in range(tpos[0], len(top)):
            if is_tag_par(top[k], open_tag):
                for m in range(k + 1, len(top)):
                    if is_tag_par(top[m], close_tag):
                        tpos[0] = m + 1
                        return [n[0] for n in top[k + 1:m]]
                return None
        return None


PROP = C06()
