"""C07 — YAML frontmatter is passed through exactly and does not influence the body.

Monitors:
  exact        format(F + B) starts with F (CRLF -> LF, nothing else changed)
  independent  format(F + B) == F' + format(B) for every option set
  unclosed     a document whose opening '---' is never closed comes back unchanged apart from one final
               newline, and formatting it again changes nothing
  cli          a sample of the same documents through flowmark.cli.main from a file and from stdin: both outputs start with the
               frontmatter and are equal
  split        icontract-style post-condition on the public split_frontmatter(): the two parts reconstruct
               the text and a line ends only at LF / CRLF (evaluated on every direct call)
"""
from __future__ import annotations

from vf import fm
from vf.core import Collector, Prop, shard_rng
from vf.docbase import first_line_diff, opts_key, rand_opts
from vf.gen_doc import gen_doc

ODD = ["\x0b", "\x0c", "\x1c", "\x1d", "\x1e", "\x85", " ", " ", "\r"]
FM_LINES = ["title: Test", "key: 'it''s \"quoted\"...'", "list:", "  - a", "  - \"b c\"", "", "   ", "trailing:   ", "# comment",
            "...", "dots: a...b", "md: '**bold** _em_ `code` [l](u)'", "- - -", "tabs:\there", "long: " + "word " * 30,
            "unicode: naïve 中文 😀", "block: |", "    indented text", "    ...", "--- not a delimiter", "url: http://x.y/z?a=1&b=2",
            " ---x", "anchors: &a *a", "name: Cafe\u0301 \u212b \u2126 \u1100\u1161 \ufb01 \uf900", "nbsp:\u00a0x\u200b", "q: \"it's\"", "date: 2024-01-01", "{% tag %}", "> quote", "1. item", "```"]
BODIES = ["Body text here.\n", "{% field %}\n- item 1\n- item 2\n{% /field %}\n", "<!-- t -->\n| a | b |\n|---|---|\n| 1 | 2 |\n<!-- /t -->\n\ntext\n", "# Heading\n\nSome   text with  spaces that is long enough to wrap when the width is small, really.\n",
          "- a\n- b\n\n1. x\n2. y\n", "Para one.\n\nPara \"two\" it's... fine.\n", "> quote\n\n```\ncode\n```\n",
          # every line indented (a docstring): the common indent goes, with any line ends
          "    aaa bbb\n\n    ccc\n", "  - a\n\n  - b\n\n        code\n"]


class C07(Prop):
    id = "C07"
    rule = ("cases: frontmatter blocks of 0..8 lines drawn from a pool (quotes, dots, Markdown syntax, blank and "
            "whitespace-only lines, trailing spaces, block scalars, tabs, long lines, and one of the non-LF characters "
            "str.splitlines() splits on: VT FF FS GS RS NEL LS PS lone-CR), LF or CRLF line ends, closed or unclosed, "
            "x bodies (fixed pool + G-doc documents of the core/tags/typo profiles, with the document's own line ends) x random points of the option product. Non-trivial: the "
            "frontmatter has >= 1 content line; distinct by hash of (frontmatter, body, options).")
    assumptions = ["the document starts with the '---' line (no blank lines before it) and the body does not itself start "
                   "with a '---' line"]
    deciding = {"exact": {"quick": 2000, "thorough": 20000}, "independent": {"quick": 2000, "thorough": 20000},
                "unclosed": {"quick": 300, "thorough": 3000}, "split": {"quick": 2000, "thorough": 20000},
                "cli": {"quick": 200, "thorough": 2000}, "api-wrapper": {"quick": 2000, "thorough": 20000}}

    def cases(self, tier, seed, shard, nshards):
        r = shard_rng(seed, self.id, shard)
        n = 180 if tier == "quick" else 1800
        for i in range(n):
            # (a few blocks of hundreds and of more than a thousand lines: a bound somebody might put on the search for the closing line)
            nlines = r.randint(0, 8) if r.random() > 0.03 else r.choice([r.randint(95, 260), r.randint(95, 260), r.randint(1001, 1100), 4200])
            lines = [r.choice(FM_LINES) for _ in range(nlines)]
            lines = [ln for ln in lines if ln.strip() != "---"]
            odd = None
            if lines and r.random() < 0.35:
                j = r.randrange(len(lines))
                odd = r.choice(ODD)
                k = r.randint(0, len(lines[j]))
                lines[j] = lines[j][:k] + odd + lines[j][k:]
            nl = "\r\n" if r.random() < 0.2 else "\n"
            closing = r.choice(["---", "---", "---", "--- ", "---\t"])
            opening = r.choice(["---", "---", "--- "])
            body = r.choice(BODIES) if r.random() < 0.6 else None
            case = {"kind": "closed", "lines": lines, "nl": nl, "opening": opening, "closing": closing, "odd": repr(odd),
                    "body": body, "body_seed": r.getrandbits(40), "body_profile": r.choice(["core", "tags", "tags", "typo"]), "gap": r.choice(["", "\n", "\n\n"]),
                    "opts": [rand_opts(r, widths=[0, 20, 88]), rand_opts(r)]}
            if r.random() < 0.1:
                case["cli"] = True  # the same document through the command line, from a file and from stdin
            yield case
            if r.random() < 0.25:
                yield dict(case, kind="unclosed", final_nl=r.random() < 0.5)
        if shard == 0:
            yield {"kind": "deepbody"}
        if shard in (1, 2, 3):
            # CRLF documents of more than 128 KB in which a CR is the last character of EVERY 64-character block, so that a reader
            # which takes its input in blocks of any power of two from 64 characters up finds a CRLF pair across each block end
            yield {"kind": "blockends", "where": ["frontmatter", "body", "both"][shard - 1], "opts": [rand_opts(r, widths=[88]), rand_opts(r, widths=[40])]}

    def setup_worker(self, col, tier):
        self.split = None
        try:
            from flowmark.formats.frontmatter import split_frontmatter
            self.split = split_frontmatter
        except Exception as e:  # noqa: BLE001
            col.note(f"split monitor off: {e}")

    def check(self, case, col: Collector):
        if case["kind"] == "deepbody":
            return self._deepbody(case, col)
        if case["kind"] == "blockends":
            return self._blockends(case, col)
        nl = case["nl"]
        lines = case["lines"]
        F = case["opening"] + nl + "".join(ln + nl for ln in lines) + case["closing"] + nl
        Fn = F.replace("\r\n", "\n")
        if case["kind"] == "unclosed":
            return self._unclosed(case, col)
        if case.get("cli") and "\r" not in "".join(lines) :
            o_cli = dict(case["opts"][0], plaintext=False)
            body_ = case["body"] if case["body"] is not None else gen_doc(case["body_seed"], case.get("body_profile", "core"), nblocks=(1, 3)).text
            self._cli(case, F + (case["gap"] + body_).replace("\n", nl), Fn, o_cli, col)
            self._cli_multi(case, F + (case["gap"] + body_).replace("\n", nl), Fn, o_cli, col)
        body = case["body"] if case["body"] is not None else \
            gen_doc(case["body_seed"], case.get("body_profile", "core"), nblocks=(1, 3)).text
        B = case["gap"] + body
        text = F + B.replace("\n", nl) if nl == "\r\n" else F + B
        if self.split is not None:
            col.mon("split")
            res = fm.call(self.split, text)
            if isinstance(res, fm.Raised):
                col.violation("split", f"C07/split/raised/{res.kind}", case, res.text)
            else:
                f_, c_ = res
                norm = text.replace("\r\n", "\n")
                if f_ + c_ != norm and (f_ + c_).rstrip("\n") != norm.rstrip("\n"):
                    col.violation("split", "C07/split/parts-do-not-reconstruct-text" + self.oddtag(case), case,
                                  {"frontmatter": f_[:200], "content_head": c_[:80]})
                elif f_ != Fn:
                    col.violation("split", "C07/split/frontmatter-part-differs" + self.oddtag(case), case, {"got": f_[:300], "want": Fn[:300]})
        for o in case["opts"]:
            col.case()
            if o.get("plaintext"):
                o = dict(o, plaintext=False)
            out = fm.fmt(text, **o)
            sub = dict(case, opts=[o])
            if isinstance(out, fm.Raised):
                col.count("raised_cases_left_to_C12")
                continue
            col.mon("exact")
            if lines:
                col.distinct(F, body[:80], opts_key(o))
            col.hist("line_end", "CRLF" if nl == "\r\n" else "LF")
            col.hist("odd_char", case["odd"])
            if not out.startswith(Fn):
                d = first_line_diff(Fn, out[:len(Fn) + 40])
                col.violation("exact", "C07/frontmatter-not-verbatim" + self.oddtag(case), sub,
                              {"line": d[0] if d else None, "want": d[1] if d else None, "got": d[2] if d else None})
                continue
            if o is case["opts"][0] or len(lines) > 50:
                self._api_wrapper(text, Fn, B.replace("\n", nl), o, sub, col)
            col.mon("independent")
            # the same body, with the same line ends as in the document
            alone = fm.fmt(B.replace("\n", nl), **o)
            if isinstance(alone, fm.Raised):
                continue
            if out != Fn + alone:
                d = first_line_diff(Fn + alone, out)
                col.violation("independent", "C07/body-formatted-differently-with-frontmatter", sub,
                              {"line": d[0], "alone": d[1], "with_frontmatter": d[2]})

    def _api_wrapper(self, text, Fn, body, o, sub, col):
        """fill_markdown() called directly with a wrapper supplied by the caller (documented parameter) and with its
        own keyword arguments: the body is formatted with that wrapper / those arguments behind a frontmatter block too."""
        w = 30 if o["width"] != 30 else 50
        for name, mk in (("line_wrap_to_width", lambda: fm.line_wrap_to_width(w, is_markdown=True)),
                         ("line_wrap_by_sentence", lambda: fm.line_wrap_by_sentence(w, is_markdown=True, min_line_len=8))):
            col.case()
            col.mon("api-wrapper")
            a = fm.call(lambda: fm.fill_markdown(text, line_wrapper=mk()))
            b = fm.call(lambda: fm.fill_markdown(body, line_wrapper=mk()))
            if isinstance(a, fm.Raised) or isinstance(b, fm.Raised):
                col.count("raised_cases_left_to_C12")
                continue
            if a != Fn + b:
                d = first_line_diff(Fn + b, a)
                col.violation("independent", "C07/fill_markdown-with-caller-wrapper/body-formatted-differently-with-frontmatter", dict(sub, via=name),
                              {"line": d[0], "alone": d[1], "with_frontmatter": d[2]})
        kw = {k: o[k] for k in ("width", "semantic", "cleanups", "smartquotes", "ellipses")}
        kw["list_spacing"] = fm.ListSpacing(o["list_spacing"])
        col.case()
        col.mon("api-wrapper")
        a, b = fm.call(lambda: fm.fill_markdown(text, **kw)), fm.call(lambda: fm.fill_markdown(body, **kw))
        if isinstance(a, str) and isinstance(b, str) and a != Fn + b:
            d = first_line_diff(Fn + b, a)
            col.violation("independent", "C07/fill_markdown-keywords/body-formatted-differently-with-frontmatter", sub,
                          {"line": d[0], "alone": d[1], "with_frontmatter": d[2]})

    def _blockends(self, case, col):
        where = case["where"]
        head = "---\r\n" + "k0: " + "v" * 54 + "\r\n"          # 5 + 60 characters: every later 64-character line ends its CR on a block end
        fm_lines = 2100 if where in ("frontmatter", "both") else 3
        F = head + "".join(f"k{j:05d}: " + "x" * 54 + "\r\n" for j in range(fm_lines))
        closing = "---" + " " * 59 + "\r\n"                   # keeps the 64-character rhythm
        F += closing
        body_lines = 2100 if where in ("body", "both") else 4
        # paragraphs of four 64-character lines, then a blank line padded to keep the rhythm is not possible: use one long paragraph
        # of words (a CRLF inside a paragraph that turns into two line ends splits the paragraph)
        B = "".join(("w%05d " % j) + "word " * 10 + "abcde\r\n" for j in range(body_lines))
        assert all(len(ln) == 63 for ln in (F + B).split("\n")[2:-1]), "rhythm"
        text = F + B
        assert text[65535] == "\r" and text[4095] == "\r"
        Fn = F.replace("\r\n", "\n")
        for o in case["opts"]:
            o = dict(o, plaintext=False)
            want_body = fm.fmt(B.replace("\r\n", "\n"), **o)
            if isinstance(want_body, fm.Raised):
                continue
            col.case()
            col.mon("exact")
            out = fm.fmt(text, **o)
            col.distinct("blockends", where, opts_key(o))
            if isinstance(out, str) and out != Fn + want_body:
                d = first_line_diff(Fn + want_body, out)
                col.violation("exact", "C07/crlf-across-block-ends/text-api", dict(case, opts=[o]), {"line": d[0], "want": d[1], "got": d[2]})
            self._cli(dict(case, odd="None", blockends_want=Fn + want_body), text, Fn, o, col)

    def _deepbody(self, case, col):
        """A body nested deeper than the interpreter can recurse: whatever the formatter does about it (today: it raises),
        it must not hand back the document without its frontmatter."""
        F = "---\ntitle: Deep\nnote: 'kept'\n---\n"
        for name, body in (("list-250", "".join("  " * i + "- x\n" for i in range(250))), ("list-60", "".join("  " * i + "- x\n" for i in range(60)))):
            col.case()
            col.mon("exact")
            out = fm.fmt(F + body, width=88)
            col.count("deep_body_raised" if isinstance(out, fm.Raised) else "deep_body_formatted")
            if isinstance(out, str) and not out.startswith(F):
                col.violation("exact", "C07/frontmatter-not-verbatim/deeply-nested-body", dict(case, body=name), {"output_head": out[:80]})

    def _cli(self, case, text, Fn, o, col):
        import contextlib
        import io
        import os
        import sys
        import tempfile

        from flowmark import cli
        argv = ["-w", str(o["width"]), "--list-spacing", o["list_spacing"]] + ["--" + k for k in ("semantic", "cleanups", "smartquotes", "ellipses") if o.get(k)]
        d = tempfile.mkdtemp(prefix="vf-c07-")
        try:
            path = os.path.join(d, "doc.md")
            with open(path, "wb") as f:
                f.write(text.encode("utf-8", "surrogatepass"))
            results = {}
            for via in ("file", "stdin"):
                out = io.StringIO()
                old_stdin = sys.stdin
                try:
                    if via == "stdin":
                        sys.stdin = io.StringIO(text)
                    with contextlib.redirect_stdout(out), contextlib.redirect_stderr(io.StringIO()):
                        try:
                            rc = cli.main(argv + ([path] if via == "file" else ["-"]))
                        except SystemExit as e:
                            rc = e.code
                finally:
                    sys.stdin = old_stdin
                col.case()
                col.mon("cli")
                if rc != 0:
                    col.count("cli_nonzero_exit_left_to_C12")
                    continue
                results[via] = out.getvalue()
                if case.get("blockends_want") is not None and results[via] != case["blockends_want"]:
                    dd = first_line_diff(case["blockends_want"], results[via])
                    col.violation("cli", f"C07/cli-{via}/crlf-across-block-ends", {k: v for k, v in case.items() if k != "blockends_want"} | {"opts": [o]},
                                  {"line": dd[0] if dd else None, "want": (dd[1] or "")[:80] if dd else None, "got": (dd[2] or "")[:80] if dd else None})
                elif not results[via].startswith(Fn):
                    dd = first_line_diff(Fn, results[via][:len(Fn) + 40])
                    col.violation("cli", f"C07/cli-{via}/frontmatter-not-verbatim" + self.oddtag(case), dict(case, opts=[o]),
                                  {"line": dd[0] if dd else None, "want": dd[1] if dd else None, "got": dd[2] if dd else None})
            if len(results) == 2 and results["file"] != results["stdin"]:
                dd = first_line_diff(results["file"], results["stdin"])
                col.violation("cli", "C07/cli-stdin-differs-from-file" + self.oddtag(case), dict(case, opts=[o]), {"line": dd[0], "file": dd[1], "stdin": dd[2]})
        finally:
            import shutil
            shutil.rmtree(d, ignore_errors=True)

    def _cli_multi(self, case, text, Fn, o, col):
        """The document as one of several inputs of an in-place run, after files of other kinds (a .txt, a document without
        frontmatter): what an earlier file was must not change how this one is treated."""
        import contextlib
        import io
        import os
        import shutil
        import tempfile

        from flowmark import cli
        want = fm.fmt(text, **o)
        if not isinstance(want, str):
            return
        argv = ["-w", str(o["width"]), "--list-spacing", o["list_spacing"]] + ["--" + k for k in ("semantic", "cleanups", "smartquotes", "ellipses") if o.get(k)]
        for names in (["notes.txt", "post.md"], ["README.TXT", "plain.md", "post.md", "z.text"], ["post.md", "notes.txt"]):
            d = tempfile.mkdtemp(prefix="vf-c07m-")
            try:
                for n in names:
                    with open(os.path.join(d, n), "wb") as f:
                        f.write(text.encode("utf-8", "surrogatepass") if n == "post.md" else b"Some   plain text here.\n\n- a\n- b\n")
                old = os.getcwd()
                os.chdir(d)
                try:
                    with contextlib.redirect_stdout(io.StringIO()), contextlib.redirect_stderr(io.StringIO()):
                        try:
                            rc = cli.main(argv + ["-i", "--nobackup"] + names)
                        except SystemExit as e:
                            rc = e.code
                finally:
                    os.chdir(old)
                col.case()
                col.mon("cli")
                with open(os.path.join(d, "post.md"), "rb") as f:
                    got = f.read().decode("utf-8", "surrogatepass")
                if rc != 0:
                    col.count("cli_nonzero_exit_left_to_C12")
                elif got != want:
                    dd = first_line_diff(want, got)
                    col.violation("cli", "C07/cli-several-inputs/document-with-frontmatter-formatted-differently" + self.oddtag(case), dict(case, opts=[o], names=names),
                                  {"line": dd[0] if dd else None, "want": (dd[1] or "")[:80] if dd else None, "got": (dd[2] or "")[:80] if dd else None})
            finally:
                shutil.rmtree(d, ignore_errors=True)

    @staticmethod
    def oddtag(case) -> str:
        return "/non-LF-separator" if case["odd"] != "None" else ""

    def _unclosed(self, case, col):
        nl = case["nl"]
        body = case["body"] or "Body text.\n"
        x = case["opening"] + nl + "".join(ln + nl for ln in case["lines"]) + body.replace("\n", nl)
        if not case.get("final_nl"):
            x = x.rstrip("\r\n")
        for o in case["opts"][:1]:
            col.case()
            col.mon("unclosed")
            o = dict(o, plaintext=False)
            out = fm.fmt(x, **o)
            sub = dict(case, opts=[o])
            if isinstance(out, fm.Raised):
                col.count("raised_cases_left_to_C12")
                continue
            col.distinct("unclosed", x, opts_key(o))
            want = x  # "returned unchanged": no line-end normalisation is asked for here
            if out.rstrip("\n") != want.rstrip("\n") or not out.endswith("\n") or out.endswith("\n\n") and not want.endswith("\n\n"):
                d = first_line_diff(want, out)
                col.violation("unclosed", "C07/unclosed-frontmatter-not-returned-unchanged" + self.oddtag(case), sub,
                              {"line": d[0] if d else None, "want": d[1] if d else None, "got": d[2] if d else None,
                               "tail_in": repr(want[-6:]), "tail_out": repr(out[-6:])})
                continue
            out2 = fm.fmt(out, **o)
            if out2 != out:
                col.violation("unclosed", "C07/unclosed-frontmatter-changes-on-second-pass", sub,
                              {"pass1_tail": repr(out[-8:]), "pass2_tail": repr(out2[-8:]) if isinstance(out2, str) else str(out2)})


PROP = C07()
