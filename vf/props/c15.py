"""C15 — all entry points agree: CLI, file API and text API give the same bytes.

Monitors:
  inproc   for EVERY point of the option space {width 0/20/88} x {plaintext, semantic, cleanups, smartquotes,
           ellipses} x {preserve, loose, tight} (288 points) and every output mode {stdout, stdin -> -o, --inplace,
           --inplace --nobackup} x input kind {file, stdin, several files}: bytes produced by flowmark.cli.main(argv)
           (real argparse path, in-process, cwd and stdio redirected) == reformat_file(...) == reformat_text(text, ...)
  auto     --auto == --inplace --nobackup --semantic --cleanups --smartquotes --ellipses (files byte-identical, no backup)
  usage    no input / -o with several files / --inplace with stdin / --auto or --list-files without arguments: exit
           status non-zero and the directory is unchanged
  exe      the real executables (python -m flowmark.cli, the installed `flowmark` script) as subprocesses on a
           stratified sample of the same points (thorough: all points for stdout mode)
"""
from __future__ import annotations

import contextlib
import io
import itertools
import os
import shutil
import subprocess
import sys
import tempfile

from vf import fm
from vf.core import Collector, Prop, shard_rng

DOCS = {
    "probe.md": ("# **Bold Heading**\n\nThis is sentence one of the probe document, it is long enough to wrap. This is \"sentence two\" and it's "
                 "followed by dots... like these.\n\n- tight one\n- tight two\n\n1. loose one\n\n2. loose two\n\n> A 'quoted' block... here.\n"),
    "second.md": "Title\n=====\n\nAnother   paragraph with   extra spaces, a `code span`, and \"quotes\"... done. Short one.\n\n* a\n* b\n\n## Ends with heading\n",
    "third.md": "| a | b |\n|---|---|\n| c | d |\n\nAfter the table comes text that should keep its blank line.\n\n* * *\n\n[ref]: http://x.y \"T\"\n\nUse [ref].\n",
}
# documents judged as raw bytes: what a file holds and what arrives on stdin are the same bytes, so every entry point must
# give the result for the text that Path.read_text() makes of them (UTF-8, universal newlines)
RAW_DOCS = {
    "crlf.md": "First paragraph, line one\r\nline two of it.\r\n\r\nSecond \"paragraph\"... here.\r\n\r\n- a\r\n- b\r\n",
    "bom.md": "\ufeff# Heading after a byte order mark\n\nSome text that is long enough to be wrapped at the narrow widths, really.\n",
    "cr.md": "Old Mac line ends\rsecond line.\r\rNext paragraph.\r",
}


def as_read(raw: str) -> str:
    return raw.replace("\r\n", "\n").replace("\r", "\n")


WIDTHS = [0, 20, 88]
FLAGS = ["plaintext", "semantic", "cleanups", "smartquotes", "ellipses"]
SPACINGS = ["preserve", "loose", "tight"]


def points():
    for w in WIDTHS:
        for bits in itertools.product([False, True], repeat=5):
            for ls in SPACINGS:
                o = {"width": w, "list_spacing": ls}
                o.update(dict(zip(FLAGS, bits)))
                yield o


def argv_of(o):
    a = ["-w", str(o["width"]), "--list-spacing", o["list_spacing"]]
    for f in FLAGS:
        if o[f]:
            a.append("--" + f)
    return a


class C15(Prop):
    id = "C15"
    once_kinds = ("point", "auto", "usage", "links", "blockends", "dashfile")
    rule = ("cases: the complete product of 288 option points x 3 probe documents (each option changes at least one of them; "
            "CRLF / lone-CR / BOM documents given as the same bytes in a file and on stdin) x {file->stdout, file->-o, stdin->stdout, stdin->-o, --inplace, --inplace --nobackup, several files->stdout, "
            "several files --inplace} through cli.main in-process, reformat_file and reformat_text; --auto against its spelled-out "
            "flags; 6 usage errors; a stratified sample of real subprocess runs of both executables. Non-trivial: the option "
            "point changes the output of the probe document relative to the defaults or the mode writes a file; distinct by "
            "(point, mode, document). The option space is enumerated completely in-process.")
    assumptions = ["the expected bytes are reformat_text(text read the way Path.read_text reads it) for the same options"]
    deciding = {"inproc": {"quick": 3000, "thorough": 3000}, "auto": 9, "usage": 10, "exe": {"quick": 40, "thorough": 300}}
    soft_timeout = 900.0
    hard_timeout = 2400.0

    def cases(self, tier, seed, shard, nshards):
        pts = list(points())
        for i in range(shard, len(pts), nshards):
            yield {"kind": "point", "opts": pts[i], "index": i}
        if shard == 0:
            yield {"kind": "auto"}
            yield {"kind": "usage"}
        if shard in (1, 2):
            yield {"kind": "links", "mode": ["--inplace", "--auto"][shard - 1]}
        if shard in (3, 4, 5):
            yield {"kind": "blockends", "opts": [pts[7 * shard], pts[-(5 * shard)]]}
        if shard in (6, 7):
            yield {"kind": "dashfile", "opts": pts[11 * shard]}
        r = shard_rng(seed, self.id, shard)
        n = 3 if tier == "quick" else 20
        for _ in range(n):
            yield {"kind": "exe", "opts": r.choice(pts), "mode": r.choice(["stdout", "inplace", "stdin", "several"]),
                   "exe": r.choice(["module", "script"])}

    def setup_worker(self, col, tier):
        from flowmark import cli, reformat_api
        self.cli = cli
        self.api = reformat_api
        self.tmp = tempfile.mkdtemp(prefix="vf-c15-")
        # what the terminal is said to look like must not matter for the bytes produced (subprocesses inherit it)
        os.environ["COLUMNS"], os.environ["LINES"] = "31", "7"

    def teardown_worker(self, col):
        shutil.rmtree(self.tmp, ignore_errors=True)

    # ------------------------------------------------------------------ helpers
    def expected(self, text, o):
        fm.fmt("x\n\ny\n")  # neutral call first: the expectation must not inherit state from the previous document
        return fm.call(fm.reformat_text, text, **fm.opts_to_kwargs(o))

    def fresh(self, files: dict):
        d = tempfile.mkdtemp(prefix="run-", dir=self.tmp)
        for name, data in files.items():
            with open(os.path.join(d, name), "wb") as f:
                f.write(data if isinstance(data, bytes) else data.encode())
        return d

    def main(self, argv, cwd, stdin=None):
        out, err = io.StringIO(), io.StringIO()
        old = os.getcwd()
        old_stdin = sys.stdin
        os.chdir(cwd)
        try:
            if stdin is not None:
                sys.stdin = io.StringIO(stdin)
            with contextlib.redirect_stdout(out), contextlib.redirect_stderr(err):
                try:
                    rc = self.cli.main(argv)
                except SystemExit as e:
                    rc = e.code if isinstance(e.code, int) else 1
        except Exception as e:  # noqa: BLE001
            rc = f"raised {type(e).__name__}: {e}"
        finally:
            sys.stdin = old_stdin
            os.chdir(old)
        return rc, out.getvalue(), err.getvalue()

    @staticmethod
    def read(d, name):
        with open(os.path.join(d, name), "rb") as f:
            return f.read().decode()

    @staticmethod
    def listing(d):
        out = {}
        for dp, dn, fn in os.walk(d):
            for x in dn:
                out[os.path.relpath(os.path.join(dp, x), d) + "/"] = b"<directory>"
            for f in fn:
                p = os.path.join(dp, f)
                with open(p, "rb") as fh:
                    out[os.path.relpath(p, d)] = fh.read()
        return out

    def check(self, case, col: Collector):
        getattr(self, "_check_" + case["kind"])(case, col)

    def differ(self, col, monitor, desc, case, **detail):
        col.violation(monitor, desc, case, detail)

    # ------------------------------------------------------------------ the product
    def _check_point(self, case, col):
        o = case["opts"]
        a = argv_of(o)
        exp = {}
        for name, text in DOCS.items():
            e = self.expected(text, o)
            if isinstance(e, fm.Raised):
                col.count("raised_cases_left_to_C12")
                return
            exp[name] = e
        dflt = {n: self.expected(t, {"width": 88, "list_spacing": "preserve", **{f: False for f in FLAGS}}) for n, t in DOCS.items()}
        changed = any(exp[n] != dflt[n] for n in DOCS)
        col.hist("point_changes_probe_output", changed)

        def ok(mode, name, got, want):
            col.case()
            col.mon("inproc")
            if changed or mode != "file->stdout":
                col.distinct(case["index"], mode, name)
            if got != want:
                import difflib
                d = next((ln for ln in difflib.unified_diff(want.splitlines(), got.splitlines(), n=0, lineterm="") if ln[:1] in "+-" and ln[:3] not in ("+++", "---")), "")
                self.differ(col, "inproc", f"C15/{mode}-differs-from-text-api", dict(case, mode=mode, doc=name),
                            argv=a, first_difference=d[:160], want_len=len(want), got_len=len(got))
                return False
            return True

        for name, text in DOCS.items():
            # file -> stdout
            d = self.fresh({name: text})
            rc, out, err = self.main(a + [name], d)
            ok("file->stdout", name, out if rc == 0 else f"<exit {rc}: {err[:80]}>", exp[name])
            if self.read(d, name) != text:
                self.differ(col, "inproc", "C15/input-file-modified-without-inplace", dict(case, doc=name), argv=a)
            # stdin -> stdout and stdin -> -o
            rc, out, err = self.main(a + ["-"], d, stdin=text)
            ok("stdin->stdout", name, out if rc == 0 else f"<exit {rc}: {err[:80]}>", exp[name])
            rc, out, err = self.main(a + ["-o", "out.md", "-"], d, stdin=text)
            ok("stdin->-o", name, self.read(d, "out.md") if rc == 0 and os.path.exists(os.path.join(d, "out.md")) else f"<exit {rc}: {err[:80]}>", exp[name])
            # file -> -o (a single named file may go to an output path as well; the input stays as it is)
            rc, out, err = self.main(a + ["-o", "out2.md", name], d)
            ok("file->-o", name, self.read(d, "out2.md") if rc == 0 and os.path.exists(os.path.join(d, "out2.md")) else f"<exit {rc}: {err[:80]}>", exp[name])
            if self.read(d, name) != text:
                self.differ(col, "inproc", "C15/input-file-modified-without-inplace", dict(case, doc=name), argv=a)
            # --inplace with and without backup
            for nb in (False, True):
                d2 = self.fresh({name: text})
                rc, out, err = self.main(a + ["--inplace"] + (["--nobackup"] if nb else []) + [name], d2)
                ok("inplace" + ("-nobackup" if nb else ""), name, self.read(d2, name) if rc == 0 else f"<exit {rc}: {err[:80]}>", exp[name])
                has_orig = os.path.exists(os.path.join(d2, name + ".orig"))
                if rc == 0 and has_orig == nb:
                    self.differ(col, "inproc", "C15/backup-file-presence-wrong", dict(case, doc=name), nobackup=nb, orig_exists=has_orig)
                elif rc == 0 and has_orig and self.read(d2, name + ".orig") != text:
                    self.differ(col, "inproc", "C15/backup-file-content-wrong", dict(case, doc=name))
                shutil.rmtree(d2, ignore_errors=True)
            # file API
            d3 = self.fresh({name: text})
            kw = fm.opts_to_kwargs(o)
            r = fm.call(self.api.reformat_file, os.path.join(d3, name), os.path.join(d3, "api-out.md"), **kw)
            ok("file-api->output", name, self.read(d3, "api-out.md") if not isinstance(r, fm.Raised) else f"<{r.text}>", exp[name])
            r = fm.call(self.api.reformat_file, os.path.join(d3, name), None, inplace=True, nobackup=True, **kw)
            ok("file-api-inplace", name, self.read(d3, name) if not isinstance(r, fm.Raised) else f"<{r.text}>", exp[name])
            shutil.rmtree(d3, ignore_errors=True)
            shutil.rmtree(d, ignore_errors=True)
        # raw-byte documents (CRLF, lone CR, BOM): file and stdin hold the same bytes
        for name, raw in RAW_DOCS.items():
            want = self.expected(as_read(raw), o)
            if not isinstance(want, str):
                continue
            d = self.fresh({name: raw})
            rc, out, err = self.main(a + [name], d)
            ok("file->stdout/raw", name, out if rc == 0 else f"<exit {rc}: {err[:80]}>", want)
            rc, out, err = self.main(a + ["-"], d, stdin=raw)
            ok("stdin->stdout/raw", name, out if rc == 0 else f"<exit {rc}: {err[:80]}>", want)
            rc, out, err = self.main(a + ["--inplace", "--nobackup", name], d)
            ok("inplace/raw", name, self.read(d, name) if rc == 0 else f"<exit {rc}>", want)
            shutil.rmtree(d, ignore_errors=True)
        # CRLF input that is already canonical: still LF everywhere
        name = "probe.md"
        crlf = exp[name].replace("\n", "\r\n").encode()
        want = self.expected(exp[name], o)
        d = self.fresh({name: crlf})
        rc, out, err = self.main(a + ["--inplace", "--nobackup", name], d)
        ok("inplace-crlf-input", name, self.read(d, name) if rc == 0 else f"<exit {rc}>", want if isinstance(want, str) else "")
        shutil.rmtree(d, ignore_errors=True)
        # several files: each gets what it would get alone (order: a document ending with a heading first)
        names = ["second.md", "third.md", "probe.md"]
        d = self.fresh({n: DOCS[n] for n in names})
        rc, out, err = self.main(a + names, d)
        ok("several->stdout", "+".join(names), out if rc == 0 else f"<exit {rc}: {err[:80]}>", "".join(exp[n] for n in names))
        rc, out, err = self.main(a + ["--inplace", "--nobackup"] + names, d)
        for n in names:
            ok("several-inplace", n, self.read(d, n) if rc == 0 else f"<exit {rc}: {err[:80]}>", exp[n])
        shutil.rmtree(d, ignore_errors=True)
        if case["index"] % 97 == 0:
            col.sample({"opts": o, "argv": a, "modes": 11, "docs": list(DOCS)})

    def _check_auto(self, case, col):
        for w in (None, 40, 0):
            for ls in (None, "loose", "tight"):
                extra = (["-w", str(w)] if w is not None else []) + (["--list-spacing", ls] if ls else [])
                names = list(DOCS)
                d1 = self.fresh(DOCS)
                d2 = self.fresh(DOCS)
                rc1, _, e1 = self.main(["--auto"] + extra + names, d1)
                rc2, _, e2 = self.main(["--inplace", "--nobackup", "--semantic", "--cleanups", "--smartquotes", "--ellipses"] + extra + names, d2)
                col.case()
                col.mon("auto")
                col.distinct("auto", w, ls)
                l1, l2 = self.listing(d1), self.listing(d2)
                if rc1 != 0 or rc2 != 0 or l1 != l2:
                    bad = [n for n in set(l1) | set(l2) if l1.get(n) != l2.get(n)]
                    self.differ(col, "auto", "C15/auto-differs-from-spelled-out-flags", dict(case, extra=extra), rc=[rc1, rc2], files=bad[:4])
                o = {"width": 88 if w is None else w, "list_spacing": ls or "preserve", "plaintext": False, "semantic": True,
                     "cleanups": True, "smartquotes": True, "ellipses": True}
                for n in names:
                    e = self.expected(DOCS[n], o)
                    if isinstance(e, str) and l1.get(n, b"").decode() != e:
                        self.differ(col, "auto", "C15/auto-differs-from-text-api", dict(case, extra=extra, doc=n))
                shutil.rmtree(d1, ignore_errors=True)
                shutil.rmtree(d2, ignore_errors=True)

    def _check_links(self, case, col):
        """Several inputs of which two are hard links of one file (two names, each must end up formatted: an atomic rewrite of
        one name leaves the other name on the old inode), a directory holding both, and the same file under two spellings."""
        o = {"width": 88, "list_spacing": "preserve", **{f: False for f in FLAGS}} if case["mode"] == "--inplace" else \
            {"width": 88, "list_spacing": "preserve", "plaintext": False, "semantic": True, "cleanups": True, "smartquotes": True, "ellipses": True}
        for argv_files in (["CHANGELOG.md", "docs/changes.md", "probe.md"], ["docs/changes.md", "CHANGELOG.md"], ["."], ["probe.md", "./probe.md", "CHANGELOG.md", "docs"],
                           ["link.md", "CHANGELOG.md"], ["CHANGELOG.md", "link.md", "probe.md"]):
            d = self.fresh(DOCS)
            os.makedirs(os.path.join(d, "docs"))
            with open(os.path.join(d, "CHANGELOG.md"), "w") as f:
                f.write(DOCS["second.md"])
            os.link(os.path.join(d, "CHANGELOG.md"), os.path.join(d, "docs", "changes.md"))
            if "link.md" in argv_files:
                os.symlink("CHANGELOG.md", os.path.join(d, "link.md"))  # a symbolic link named next to its target
            rc, _, err = self.main([case["mode"]] + (["--nobackup"] if case["mode"] == "--inplace" else []) + list(argv_files), d)
            col.case()
            col.mon("inproc")
            col.distinct("links", case["mode"], tuple(argv_files))
            named = {"CHANGELOG.md": "second.md", "docs/changes.md": "second.md", "probe.md": "probe.md", "link.md": "second.md"}
            if argv_files == ["."]:
                named.update({"second.md": "second.md", "third.md": "third.md"})
            elif "docs" not in argv_files and "docs/changes.md" not in argv_files:
                named.pop("docs/changes.md")
            for rel, src in named.items():
                if not any(rel == a or a in (".",) or (a == "docs" and rel.startswith("docs/")) or rel == a.removeprefix("./") for a in argv_files):
                    continue
                if not os.path.lexists(os.path.join(d, rel)):
                    continue
                want = self.expected(DOCS[src], o)
                got = self.read(d, rel)
                if rc != 0 or (isinstance(want, str) and got != want):
                    self.differ(col, "inproc", "C15/several-inputs/a-named-file-does-not-get-the-result-it-gets-alone", dict(case, argv=argv_files, file=rel),
                                rc=rc, got_head=got[:80], want_head=(want if isinstance(want, str) else "")[:80], stderr=err[-160:])
                    break
            shutil.rmtree(d, ignore_errors=True)

    def _check_blockends(self, case, col):
        """A CRLF document of more than 128 KB in which a CR is the last character of every 64-character block: the same bytes
        from a file, on stdin (to stdout and to -o), through the file API and the text API."""
        raw = "".join(("w%05d " % j) + "word " * 10 + ("abcde\r\n" if j % 7 else "ends.\r\n\r\n" + "x" * 60 + "\r\n") for j in range(2300))
        raw = "T" * 63 + "\r\n" + "\r\n" + "y" * 60 + "\r\n" + raw   # 65 + 2 + 62 = 129: from here on a CR sits at every offset 64k + 63
        assert all(raw[k] == "\r" and raw[k + 1] == "\n" for k in range(63, len(raw) - 1, 64)), "rhythm"
        assert raw[65535] == "\r" and raw[65536] == "\n" and raw[131071] == "\r", "rhythm"
        for o in case["opts"]:
            o = dict(o, plaintext=False)
            a = argv_of(o)
            want = self.expected(as_read(raw), o)
            if not isinstance(want, str):
                continue
            d = self.fresh({"big.md": raw.encode()})
            results = {"file->stdout": self.main(a + ["big.md"], d), "stdin->stdout": self.main(a + ["-"], d, stdin=raw)}
            rc_o, _, _ = self.main(a + ["-o", "out.md", "-"], d, stdin=raw)
            results["stdin->-o"] = (rc_o, self.read(d, "out.md") if os.path.exists(os.path.join(d, "out.md")) else "", "")
            api = fm.call(lambda: self.api.reformat_file(os.path.join(d, "big.md"), os.path.join(d, "api.md"), **fm.opts_to_kwargs(o)))
            results["file-api"] = (0 if not isinstance(api, fm.Raised) else 1, self.read(d, "api.md") if os.path.exists(os.path.join(d, "api.md")) else "", "")
            for mode, (rc, got, _e) in results.items():
                col.case()
                col.mon("inproc")
                col.distinct("blockends", mode, tuple(sorted(o.items())))
                if rc != 0 or got != want:
                    k = next((i for i, (x, y) in enumerate(zip(got.split("\n"), want.split("\n"))) if x != y), None)
                    self.differ(col, "inproc", f"C15/{mode}/crlf-across-block-ends-differs-from-text-api", dict(case, opts=[o], mode=mode), rc=rc,
                                line=k, got=(got.split("\n")[k] if k is not None and k < len(got.split("\n")) else "")[:80], want=(want.split("\n")[k] if k is not None else "")[:80])
            shutil.rmtree(d, ignore_errors=True)

    def _check_dashfile(self, case, col):
        """A file whose name is '-', named the usual way as './-': it is a file, not stdin."""
        o = case["opts"]
        a = argv_of(o)
        want = self.expected(DOCS["second.md"], o)
        if not isinstance(want, str):
            return
        for mode in ("stdout", "-o", "several", "inplace"):
            d = self.fresh(dict(DOCS, **{"-": DOCS["second.md"]}))
            if mode == "stdout":
                rc, got, _ = self.main(a + ["./-"], d, stdin="STDIN TEXT that must not be read\n")
            elif mode == "-o":
                rc, _, _ = self.main(a + ["-o", "out.md", "./-"], d, stdin="STDIN TEXT that must not be read\n")
                got = self.read(d, "out.md") if os.path.exists(os.path.join(d, "out.md")) else ""
            elif mode == "several":
                rc, got, _ = self.main(a + ["./-", "probe.md"], d, stdin="STDIN TEXT that must not be read\n")
                w2 = self.expected(DOCS["probe.md"], o)
                want_m = want + (w2 if isinstance(w2, str) else "")
            else:
                rc, _, _ = self.main(a + ["-i", "--nobackup", "./-"], d, stdin="STDIN TEXT\n")
                got = self.read(d, "-")
            col.case()
            col.mon("inproc")
            col.distinct("dashfile", mode, tuple(sorted(o.items())))
            w = want_m if mode == "several" else want
            if rc != 0 or got != w:
                self.differ(col, "inproc", f"C15/file-named-dash/{mode}-differs-from-text-api", dict(case, mode=mode), rc=rc, got_head=got[:80], want_head=w[:80])
            shutil.rmtree(d, ignore_errors=True)

    def _check_usage(self, case, col):
        for argv, stdin in ([[], None], [["--auto"], None], [["--list-files"], None], [["-o", "out.md", "probe.md", "second.md"], None],
                            [["--inplace", "-"], "text\n"], [["-w", "40"], None], [["--auto", "-"], "text\n"], [["nonexistent.md"], None],
                            [["--inplace", "-", "probe.md"], "text\n"], [["--auto", "probe.md", "-"], "text\n"], [["-o", "out.md"], "text\n"],
                            [["-o", "sub/dir/out.md"], "text\n"], [["--nobackup", "-o", "x.md", "probe.md", "second.md"], None],
                            # "several files" is about what the arguments resolve to: one directory or glob naming several files
                            [["-o", "out.md", "."], None], [["-o", "out.md", "*.md"], None], [["-o", "out.md", "./"], None],
                            [["-o", "out.md", "-w", "40", "s*.md", "probe.md"], None],
                            # nothing is written: not even the parent directories of the output path
                            [["-o", "new/dir/out.md", "probe.md", "second.md"], None], [["-o", "new2/out.md", "probe.md", "-"], "text\n"]):
            d = self.fresh(DOCS)
            before = self.listing(d)
            rc, out, err = self.main(list(argv), d, stdin=stdin)
            col.case()
            col.mon("usage")
            col.distinct("usage", tuple(argv))
            if rc == 0:
                self.differ(col, "usage", "C15/usage-error-exits-zero", dict(case, argv=argv), stdout=out[:100])
            if self.listing(d) != before:
                self.differ(col, "usage", "C15/usage-error-wrote-something", dict(case, argv=argv))
            shutil.rmtree(d, ignore_errors=True)

    def _check_exe(self, case, col):
        o = case["opts"]
        a = argv_of(o)
        exe = [sys.executable, "-m", "flowmark.cli"] if case["exe"] == "module" else [os.path.join(os.path.dirname(sys.executable), "flowmark")]
        if case["exe"] == "script" and not os.path.exists(exe[0]):
            col.note("installed flowmark script not found; module form only")
            exe = [sys.executable, "-m", "flowmark.cli"]
        name = "probe.md"
        text = DOCS[name]
        want = self.expected(text, o)
        if isinstance(want, fm.Raised):
            return
        d = self.fresh(DOCS)
        env = dict(os.environ)
        try:
            mode = case["mode"]
            if mode == "stdout":
                p = subprocess.run(exe + a + [name], cwd=d, env=env, capture_output=True, text=True, timeout=120)
                got = p.stdout
            elif mode == "stdin":
                p = subprocess.run(exe + a + ["-"], cwd=d, env=env, input=text, capture_output=True, text=True, timeout=120)
                got = p.stdout
                # the raw-byte documents through a REAL pipe (the in-process runs replace sys.stdin by a StringIO)
                for rname, raw in RAW_DOCS.items():
                    if rname == "cr.md":
                        continue
                    pr = subprocess.run(exe + a + ["-"], cwd=d, env=env, input=raw.encode("utf-8"), capture_output=True, timeout=120)
                    wr = self.expected(as_read(raw), o)
                    col.case()
                    col.mon("exe")
                    if isinstance(wr, str) and (pr.returncode != 0 or pr.stdout.decode("utf-8") != wr):
                        self.differ(col, "exe", "C15/executable-stdin-raw-bytes-differ-from-text-api", dict(case, doc=rname), rc=pr.returncode,
                                    got_head=pr.stdout.decode("utf-8", "replace")[:80], want_head=wr[:80])
            elif mode == "inplace":
                p = subprocess.run(exe + a + ["-i", name], cwd=d, env=env, capture_output=True, text=True, timeout=120)
                got = self.read(d, name)
            else:
                names = ["second.md", "third.md", "probe.md"]
                p = subprocess.run(exe + a + names, cwd=d, env=env, capture_output=True, text=True, timeout=120)
                got = p.stdout
                w = [self.expected(DOCS[n], o) for n in names]
                want = "".join(x for x in w if isinstance(x, str))
            col.case()
            col.mon("exe")
            col.distinct("exe", case["exe"], mode, tuple(sorted(o.items())))
            if p.returncode != 0 or got != want:
                self.differ(col, "exe", f"C15/executable-{mode}-differs-from-text-api", case, rc=p.returncode, stderr=p.stderr[-200:],
                            got_head=got[:120], want_head=want[:120])
        finally:
            shutil.rmtree(d, ignore_errors=True)


PROP = C15()
