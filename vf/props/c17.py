"""C17 — file discovery returns exactly the wanted files, deterministically.

Monitors:
  exact   FileResolver(FileResolverConfig(settings)).resolve(args) == an independent reference walk of the same tree
          (os.scandir, never following links; include = basename globs; excluded directory = any path component
          matching a directory pattern; .flowmarkignore rules evaluated by git itself in a scratch mirror; size limit;
          explicit-file rules), and the result is absolute, sorted and duplicate-free
  cli     for a third of the cases the settings are written to a flowmark.toml and the arguments go through
          `flowmark --list-files` (cli.main): the listing equals the reference as well
  order   the result is the same for every permutation of the arguments and for a shuffled directory listing
          order (os.scandir / os.listdir wrapped in the harness; perturbed listings are counted)
"""
from __future__ import annotations

import fnmatch
import glob as globmod
import itertools
import os
import random
import shutil
import subprocess
import tempfile

from vf import fm
from vf.core import Collector, Prop, shard_rng
from vf.gen_tree import EXCLUDED_DIRNAMES, GIT_ENV, build_tree

IGNORE_SIMPLE = ["b.md", "*.mdx", "docs/", "README.md", "d?/", "[ab].md", "# comment", "", "sp ace.md", "guide/", "c.md",
                 "issue #12/", "n #1.md", "readme.md", "Docs/"]
IGNORE_PATHS = ["/b.md", "docs/a.md", "/docs/", "d1/*.md", "**/c.md", "!b.md", "guide/*", "!guide/a.md", "src/**"]


def default_excludes():
    from flowmark.file_resolver import DEFAULT_EXCLUDES
    return list(DEFAULT_EXCLUDES)


class Ref:
    """Independent reference for one tree + settings."""

    def __init__(self, root, settings, ignore_files):
        """ignore_files: {directory: [rule lines]} — every .flowmarkignore in the tree."""
        self.root = os.path.realpath(root)
        self.s = settings
        self.include = ["*.md"] + settings.get("extend_include", [])
        base = settings["exclude"] if settings.get("exclude") is not None else default_excludes()
        self.exclude_dirs = [p.rstrip("/") for p in base + settings.get("extend_exclude", []) if p.endswith("/")]
        self.max = settings.get("files_max_size", 1048576)
        self.ignores = {os.path.realpath(d): [self.parse_rule(x) for x in lines if x.strip() and not x.strip().startswith("#")]
                        for d, lines in ignore_files.items()}

    def governing(self, start):
        """The one ignore file that governs a walk / glob starting at `start`: the nearest one at or above it."""
        d = os.path.realpath(start)
        while True:
            if d in self.ignores:
                return d
            if os.path.dirname(d) == d:
                return None
            d = os.path.dirname(d)

    # --- a small matcher of gitignore semantics, written for the harness (git itself is the oracle of C18; here the
    #     rule shapes are restricted to what the generator emits: names, globs, anchored and multi-segment paths,
    #     dir-only rules, '**/x', 'x/**', 'x/*', negations). Rules are relative to the ignore file's directory. ---
    @staticmethod
    def parse_rule(line):
        neg = line.startswith("!")
        pat = line[1:] if neg else line
        pat = pat.rstrip(" ")
        dir_only = pat.endswith("/")
        pat = pat.rstrip("/")
        anchored = "/" in pat
        return (neg, dir_only, anchored, pat.lstrip("/").split("/"))

    @staticmethod
    def seg_match(segs, parts):
        """gitignore path match of pattern segments against path parts ('**' spans any number of directories)."""
        if not segs:
            return not parts
        if segs[0] == "**":
            if len(segs) == 1:
                return len(parts) >= 1
            return any(Ref.seg_match(segs[1:], parts[i:]) for i in range(len(parts) + 1))
        if not parts:
            return False
        return fnmatch.fnmatchcase(parts[0], segs[0]) and Ref.seg_match(segs[1:], parts[1:])

    def rule_decision(self, path, is_dir, gov):
        """True = ignored, False = re-included, None = no rule of the governing file matches this entry itself."""
        if gov is None:
            return None
        rel = os.path.relpath(path, gov)
        if rel.startswith(".."):
            return None
        parts = rel.split(os.sep)
        for neg, dir_only, anchored, segs in reversed(self.ignores[gov]):
            if dir_only and not is_dir:
                continue
            if anchored:
                if segs[-1] == "**":
                    ok = len(parts) > len(segs) - 1 and self.seg_match(segs[:-1], parts[:len(segs) - 1]) if "**" not in segs[:-1] else \
                        any(self.seg_match(segs[:-1], parts[:i]) for i in range(1, len(parts)))
                else:
                    ok = self.seg_match(segs, parts)
            else:
                ok = fnmatch.fnmatchcase(parts[-1], segs[0])
            if ok:
                return not neg
        return None

    def included_name(self, name):
        return any(fnmatch.fnmatchcase(name, p) for p in self.include)

    def dir_excluded(self, name):
        return any(fnmatch.fnmatchcase(name, p) for p in self.exclude_dirs)

    def too_big(self, path):
        try:
            return self.max != 0 and os.stat(path).st_size > self.max
        except OSError:
            return False

    def walk(self, top):
        out = []
        top = os.path.realpath(top)
        gov = self.governing(top)
        stack = [top]
        while stack:
            d = stack.pop()
            try:
                entries = list(os.scandir(d))
            except OSError:
                continue
            for e in entries:
                if e.is_symlink():
                    continue  # nothing is reached through a link during traversal
                if e.is_dir(follow_symlinks=False):
                    if not self.dir_excluded(e.name) and self.rule_decision(e.path, True, gov) is not True:
                        stack.append(e.path)
                elif e.is_file(follow_symlinks=False):
                    if self.included_name(e.name) and not self.too_big(e.path) and self.rule_decision(e.path, False, gov) is not True:
                        out.append(e.path)
        return out

    def glob_ignored(self, path, groot):
        """A glob result is unwanted if the file, or a directory between the glob root and the file, is ignored."""
        groot = os.path.realpath(groot)
        gov = self.governing(groot)
        if self.rule_decision(path, False, gov) is True:
            return True
        d = os.path.dirname(path)
        while d.startswith(groot) and d != groot:
            if self.rule_decision(d, True, gov) is True:
                return True
            d = os.path.dirname(d)
        return False

    def in_excluded_dir(self, path, top):
        rel = os.path.relpath(os.path.dirname(path), top)
        return any(self.dir_excluded(c) for c in rel.split(os.sep) if c not in (".", ""))

    def resolve(self, args, cwd):
        res = set()
        for a in args:
            p = a if os.path.isabs(a) else os.path.join(cwd, a)
            if os.path.isfile(p):
                if self.s.get("force_exclude"):
                    if any(fnmatch.fnmatchcase(os.path.basename(p), q) for q in []) or \
                            any(self.dir_excluded(c) for c in os.path.normpath(a).split(os.sep)[:-1]):
                        continue
                if self.too_big(p):
                    continue
                res.add(os.path.realpath(p))
            elif os.path.isdir(p):
                res.update(os.path.realpath(x) for x in self.walk(p))
            elif any(c in a for c in "*?["):
                parts = a.split("/")
                k = next(i for i, x in enumerate(parts) if any(c in x for c in "*?["))
                groot = os.path.join(cwd, *parts[:k]) if k else cwd
                for g in globmod.glob(p, recursive=True, include_hidden=True):
                    if os.path.isfile(g) and self.included_name(os.path.basename(g)) and not self.too_big(g):
                        rp = os.path.realpath(g)
                        if self.in_excluded_dir(g, groot) or self.glob_ignored(rp, groot):
                            continue
                        res.add(rp)
        return sorted(res)


class C17(Prop):
    id = "C17"
    rule = ("cases: random trees (names incl. default-excluded ones, nesting <= 4, names with spaces and dots, sizes around a 100 "
            "byte limit, symlinks to files and directories inside and outside the tree, cycles and broken links) x random "
            "settings (extend_include, exclude replaced / extended, files_max_size incl. 0, force_exclude) x a .flowmarkignore at "
            "the root (basename / directory / wildcard rules) x argument lists mixing the root, sub-directories, explicit files "
            "(also inside excluded directories and symlinks), globs and a repeated root (A B A), in every order (<= 24 permutations) and under shuffled "
            "directory listings. Non-trivial: the tree has an excluded directory, a link, an oversize file or an ignore rule; "
            "distinct by hash of (tree, settings, arguments).")
    assumptions = ["gitignore support is switched off here (C18 judges it); .flowmarkignore rules are judged with git as the reference "
                   "matcher for gitignore syntax",
                   "include patterns are basename globs (fnmatch, case-sensitive); directory patterns are names ending in '/'"]
    deciding = {"exact": {"quick": 400, "thorough": 4000}, "order": {"quick": 400, "thorough": 4000}, "cli": {"quick": 100, "thorough": 1000}}
    soft_timeout = 120.0

    def cases(self, tier, seed, shard, nshards):
        r = shard_rng(seed, self.id, shard)
        for _ in range(30 if tier == "quick" else 300):
            yield {"kind": "tree", "seed": r.getrandbits(40), "hostile_ignore": r.random() < 0.3}
        for _ in range(4 if tier == "quick" else 40):
            yield {"kind": "twin", "seed": r.getrandbits(40)}
        if shard < 4:
            yield {"kind": "locale", "variant": shard}

    def setup_worker(self, col, tier):
        from flowmark.file_resolver import FileResolver, FileResolverConfig
        self.FR, self.FRC = FileResolver, FileResolverConfig
        self.tmp = tempfile.mkdtemp(prefix="vf-c17-")
        self._scandir = os.scandir
        self._listdir = os.listdir

    def teardown_worker(self, col):
        shutil.rmtree(self.tmp, ignore_errors=True)

    def _check_locale(self, case, col):
        """The real command line in a process whose locale is not UTF-8 (cron, `env -i`, minimal containers): an ignore file
        is UTF-8 whatever the locale says."""
        import sys
        base = tempfile.mkdtemp(prefix="t-", dir=self.tmp)
        root = os.path.join(base, "tree")
        try:
            files = ["a.md", "b.md", "docs/a.md", "docs/b.md", "drafts/d.md", "keep/b.md"]
            for f in files:
                os.makedirs(os.path.dirname(os.path.join(root, f)) or root, exist_ok=True)
                with open(os.path.join(root, f), "w") as fh:
                    fh.write("x\n")
            v = case["variant"]
            lines = [["# caf\u00e9 \u2014 brouillons", "drafts/", "b.md"], ["drafts/", "# \u4e2d\u6587", "/b.md"], ["\ufeffdrafts/", "b.md", "# \u00fc"], ["b.md", "docs/", "# ascii only"]][v]
            with open(os.path.join(root, ".flowmarkignore"), "w", encoding="utf-8") as fh:
                fh.write("\n".join(lines) + "\n")
            settings = {"respect_gitignore": False}
            ref = Ref(root, settings, {root: [ln.lstrip("\ufeff") for ln in lines]})
            cwd = os.getcwd()
            os.chdir(root)
            try:
                want = ref.resolve(["."], root)
            finally:
                os.chdir(cwd)
            for name, extra in (("utf8", {"LC_ALL": "C.UTF-8"}), ("C", {"LC_ALL": "C", "LANG": "C", "PYTHONUTF8": "0", "PYTHONCOERCECLOCALE": "0"})):
                env = dict(os.environ, **extra)
                env.pop("PYTHONIOENCODING", None)
                p = subprocess.run([sys.executable, "-m", "flowmark.cli", "--list-files", "--no-respect-gitignore", "."], cwd=root, env=env, capture_output=True, timeout=120)
                col.case()
                col.mon("cli")
                col.distinct("locale", v, name)
                got = sorted(os.path.realpath(os.path.join(root, x)) for x in p.stdout.decode("utf-8", "replace").split("\n") if x)
                if p.returncode != 0 or got != want:
                    col.violation("cli", f"C17/cli-under-locale-{name}-differs-from-reference", case,
                                  {"rc": p.returncode, "flowmarkignore": lines, "extra": [os.path.relpath(x, root) for x in sorted(set(got) - set(want))[:4]],
                                   "missing": [os.path.relpath(x, root) for x in sorted(set(want) - set(got))[:4]], "stderr": p.stderr.decode("utf-8", "replace")[-200:]})
        finally:
            shutil.rmtree(base, ignore_errors=True)

    def check(self, case, col: Collector):
        if case["kind"] == "locale":
            return self._check_locale(case, col)
        r = random.Random(case["seed"])
        base = tempfile.mkdtemp(prefix="t-", dir=self.tmp)
        root = os.path.join(base, "tree")
        try:
            if case["kind"] == "twin":
                # two traversal / glob roots that hold the SAME relative sub-directory, and an ignore rule that decides
                # differently for the two (state keyed by a path relative to "the" root must not leak from one root to the other)
                t = {"dirs": ["", "guide", "guide/drafts", "api", "api/drafts", "api/v2", "guide/v2"], "links": {},
                     "files": {f: 3 for f in ["top.md", "guide/a.md", "guide/drafts/next.md", "guide/drafts/old.md", "api/b.md", "api/drafts/next.md",
                                              "api/v2/c.md", "guide/v2/c.md", "api/drafts/x.mdx"]}}
                for f in t["files"]:
                    os.makedirs(os.path.dirname(os.path.join(root, f)), exist_ok=True)
                    with open(os.path.join(root, f), "w") as fh:
                        fh.write("xxx")
                settings = {"respect_gitignore": False, "files_max_size": 100, "force_exclude": False}
                if r.random() < 0.3:
                    settings["extend_exclude"] = ["v2/"]
                elif r.random() < 0.5:
                    # a pattern of several segments: whatever it means for one traversal root, the result for overlapping
                    # roots is the union and does not depend on which root is named first
                    settings["extend_exclude"] = ["guide/drafts/"]
                ign = r.choice([["/guide/drafts/"], ["guide/drafts/"], ["/api/drafts/next.md"], ["api/drafts/*.md"], ["/api/v2/", "/guide/drafts/old.md"], ["drafts/", "!/api/drafts/"]])
                ignore_files = {root: ign}
                with open(os.path.join(root, ".flowmarkignore"), "w") as f:
                    f.write("\n".join(ign) + "\n")
                ref = Ref(root, settings, ignore_files)
                shapes = r.choice([["guide/**/*.md", "api/**/*.md"], ["guide", "api"], ["guide/**/*.md", "api"], ["guide/*/*.md", "api/*/*.md", "*.md"],
                                   ["api/**/*.md", "guide/**/*.md", "api/drafts/next.md"], ["guide/drafts", "api/drafts", "api"],
                                   [".", "guide"], [".", "guide/drafts", "api"], ["guide", ".", "guide/drafts"]])
                # the home directory of the user somewhere between a traversal root and the ignore file above it
                case["_home"] = os.path.join(root, "guide")
                args = list(shapes)
                r.shuffle(args)
            else:
                use_glob = r.random() < 0.5
                # what a glob does with symbolic links is not specified: trees with links get no glob arguments
                t = build_tree(r, root, excluded_names=True, symlinks=not use_glob, sizes=True)
                if t["files"] and r.random() < 0.15:
                    # one file just over the DEFAULT size limit (1 MiB): "0 = no limit" and explicit limits must not fall back to it
                    bigf = r.choice(sorted(t["files"]))
                    with open(os.path.join(root, bigf), "w") as fh:
                        fh.write("x" * 1048577)
                    t["files"][bigf] = 1048577
                    col.count("trees_with_a_file_over_the_default_limit")
                settings = {"respect_gitignore": False}
                if r.random() < 0.4:
                    settings["extend_include"] = r.choice([["*.mdx"], ["*.txt"], ["*.MD"]])
                if r.random() < 0.25:
                    settings["exclude"] = r.choice([[], ["drafts/"], ["docs/", "build/"]])
                if r.random() < 0.35:
                    settings["extend_exclude"] = r.choice([["drafts/"], ["d1/", "guide/"], ["sub dir/"]])
                settings["files_max_size"] = r.choice([100, 100, 0, 1048576, 3])
                settings["force_exclude"] = r.random() < 0.3
                ign = []
                ignore_files = {}
                pats = IGNORE_SIMPLE + (IGNORE_PATHS if case.get("hostile_ignore") else [])
                if r.random() < 0.5:
                    ign = r.sample(pats, r.randint(1, 3))
                    ignore_files[root] = ign
                # further ignore files below the root: each governs the walks / globs that start at or below its directory
                # and above any deeper one (searched upward from the start directory, first one found)
                nested_dirs = []
                for d in [d for d in t["dirs"] if d and not any(c in EXCLUDED_DIRNAMES for c in d.split("/"))]:
                    if r.random() < 0.3 and len(nested_dirs) < 2:
                        nested_dirs.append(d)
                        ignore_files[os.path.join(root, d)] = r.sample(pats, r.randint(1, 2))
                for d, lines in ignore_files.items():
                    with open(os.path.join(d, ".flowmarkignore"), "w") as f:
                        f.write("\n".join(lines) + "\n")
                ref = Ref(root, settings, ignore_files)
                files = sorted(t["files"])
                subdirs = [d for d in t["dirs"] if d]
                pool = ["."]
                if subdirs:
                    pool += r.sample(subdirs, min(2, len(subdirs)))
                if files:
                    pool += r.sample(files, min(3, len(files)))
                pool += [k for k in t["links"] if t["links"][k][0] in ("file-in", "file-out")][:1]
                if use_glob:
                    pool += r.sample(["*.md", "*/*.md", "**/*.md", "docs/*.md", "d?/*.md", "**/*.mdx"], 2)
                for d in nested_dirs:
                    pool.append(d)
                    if use_glob:
                        pool.append(d + "/*.md")
                if subdirs and r.random() < 0.35:
                    # the same directories spelled non-canonically ('a/../b'): the governing ignore file and its rules are the same
                    d1 = r.choice(subdirs)
                    pool.append(os.path.join(d1, "..", os.path.basename(d1)) if "/" not in d1 else os.path.join(d1, "..", os.path.basename(d1)))
                    pool.append(os.path.join(d1, ".."))
                    if use_glob:
                        pool.append(os.path.join(d1, "..", "*.md"))
                args = r.sample(pool, r.randint(1, min(4, len(pool))))
                if len(args) >= 2 and r.random() < 0.3:
                    # the same root again later in the list (A B A): a resolver must not carry state from B into A's second visit
                    args.append(args[0])
            nontrivial = bool(t["links"] or ignore_files or any(d.split("/")[-1] in EXCLUDED_DIRNAMES for d in t["dirs"]) or
                              any(s > 100 for s in t["files"].values()))
            cfg = self.FRC(**settings)
            cwd = os.getcwd()
            os.chdir(root)
            old_home = os.environ.get("HOME")
            if case.get("_home"):
                os.environ["HOME"] = case.pop("_home")
            try:
                want = ref.resolve(args, root)
                got = fm.call(lambda: self.FR(cfg).resolve(list(args)))
                col.case()
                col.mon("exact")
                if nontrivial:
                    col.distinct(case["seed"])
                if isinstance(got, fm.Raised):
                    if got.kind != "FileNotFoundError":
                        col.violation("exact", f"C17/raised/{got.kind}", case, got.text)
                    return
                gs = [str(p) for p in got]
                if list(got) != sorted(got) or len(set(gs)) != len(gs) or not all(os.path.isabs(p) for p in gs):
                    col.violation("exact", "C17/result-not-absolute-sorted-unique", case, {"result": gs[:6]})
                gotr = sorted(os.path.realpath(p) for p in gs)
                if gotr != want:
                    extra = sorted(set(gotr) - set(want))
                    missing = sorted(set(want) - set(gotr))
                    why = self.explain((extra + missing)[0], bool(extra), ref, t, root, args)
                    col.violation("exact", f"C17/{'listed-but-unwanted' if extra else 'wanted-but-missing'}/{why}", case,
                                  {"args": args, "settings": settings, "flowmarkignore": {os.path.relpath(d, root): v for d, v in ignore_files.items()},
                                   "extra": [os.path.relpath(p, root) for p in extra[:4]], "missing": [os.path.relpath(p, root) for p in missing[:4]]})
                if case["seed"] % 3 == 0 and not isinstance(got, fm.Raised):
                    self.cli_route(root, settings, args, want, case, col)
                # order independence: argument permutations and directory listing order
                perms = list(itertools.permutations(args))
                r.shuffle(perms)
                for perm in perms[:6]:
                    col.case()
                    col.mon("order")
                    shuffled = self.shuffled_listing(r, col)
                    try:
                        g2 = fm.call(lambda: self.FR(cfg).resolve(list(perm)))
                    finally:
                        shuffled()
                    if isinstance(g2, fm.Raised):
                        continue
                    if [str(p) for p in g2] != gs:
                        col.violation("order", "C17/result-depends-on-argument-or-listing-order", dict(case, perm=list(perm)),
                                      {"args": args, "perm": list(perm), "only_first": sorted(set(gs) - set(map(str, g2)))[:3],
                                       "only_second": sorted(set(map(str, g2)) - set(gs))[:3]})
                        break
            finally:
                os.chdir(cwd)
                if old_home is not None:
                    os.environ["HOME"] = old_home
            for a in args:
                col.hist("arg_kinds", "glob" if any(c in a for c in "*?[") else ("dir" if os.path.isdir(os.path.join(root, a)) else "file"))
            if case["seed"] % 5 == 0:
                col.sample({"dirs": t["dirs"], "links": {k: v[0] for k, v in t["links"].items()}, "settings": settings, "flowmarkignore": {os.path.relpath(d, root): v for d, v in ignore_files.items()},
                            "args": args, "result": [os.path.relpath(p, root) for p in want][:8]})
        finally:
            shutil.rmtree(base, ignore_errors=True)

    def cli_route(self, root, settings, args, want, case, col):
        """The same settings written to a flowmark.toml and the same arguments through `flowmark --list-files`: the
        listing must be the reference result too (a setting such as files-max-size = 0 or exclude = [] must survive the
        way from the file to the resolver)."""
        import contextlib
        import io

        from flowmark import cli

        def tv(v):
            return ("true" if v else "false") if isinstance(v, bool) else (str(v) if isinstance(v, int) else "[" + ", ".join('"' + x + '"' for x in v) + "]")
        keys = {"extend_include": "extend-include", "exclude": "exclude", "extend_exclude": "extend-exclude", "files_max_size": "files-max-size",
                "force_exclude": "force-exclude", "respect_gitignore": "respect-gitignore"}
        with open(os.path.join(root, "flowmark.toml"), "w") as f:
            f.write("".join(f"{keys[k]} = {tv(v)}\n" for k, v in settings.items() if k in keys and v is not None))
        out = io.StringIO()
        try:
            with contextlib.redirect_stdout(out), contextlib.redirect_stderr(io.StringIO()):
                try:
                    rc = cli.main(["--list-files"] + list(args))
                except SystemExit as e:
                    rc = e.code
        finally:
            os.remove(os.path.join(root, "flowmark.toml"))
        col.case()
        col.mon("cli")
        if rc != 0:
            col.count("cli_nonzero_exit")
            return
        if all(os.path.isfile(a) for a in args) and not any(c in a for a in args for c in "*?["):
            # (an existing file whose NAME holds a glob character sends the whole argument list through the resolver, which
            # lists every file once and sorted; with plain names the files are taken as written. Either is a duplicate-free
            # treatment of "the files named"; the expectation below is the as-written one.)
            # formatting run (no --list-files) over explicitly named files only: the same files, in the order given
            with open(os.path.join(root, "flowmark.toml"), "w") as f:
                f.write("".join(f"{keys[k]} = {tv(v)}\n" for k, v in settings.items() if k in keys and v is not None))
            out2 = io.StringIO()
            try:
                with contextlib.redirect_stdout(out2), contextlib.redirect_stderr(io.StringIO()):
                    try:
                        rc2 = cli.main(list(args))
                    except SystemExit as e:
                        rc2 = e.code
            finally:
                os.remove(os.path.join(root, "flowmark.toml"))
            # (every generated file holds one word, so its formatted form is that word plus a newline)
            expect = "".join(open(a).read() + "\n" for a in args if os.path.realpath(a) in set(want))
            col.count("format_runs_over_explicit_files")
            if rc2 == 0 and out2.getvalue() != expect:
                col.violation("cli", "C17/cli-format-run-over-explicit-files-differs-from-reference", case,
                              {"settings": settings, "args": args, "stdout_len": len(out2.getvalue()), "expected_len": len(expect)})
        gotl = sorted(os.path.realpath(x) for x in out.getvalue().split("\n") if x)
        if gotl != want:
            extra, missing = sorted(set(gotl) - set(want)), sorted(set(want) - set(gotl))
            col.violation("cli", "C17/cli-with-config-file-differs-from-reference", case,
                          {"settings": settings, "args": args, "extra": [os.path.relpath(p, root) for p in extra[:4]],
                           "missing": [os.path.relpath(p, root) for p in missing[:4]]})

    def shuffled_listing(self, r, col):
        """Perturb the order in which the file system lists entries; returns the undo function."""
        real_scandir, real_listdir = self._scandir, self._listdir
        rr = random.Random(r.random())

        class Shuffled:
            def __init__(self, it):
                self.entries = list(it)
                rr.shuffle(self.entries)
                try:
                    it.close()
                except Exception:  # noqa: BLE001
                    pass

            def __iter__(self):
                return iter(self.entries)

            def __enter__(self):
                return self

            def __exit__(self, *a):
                return False

            def close(self):
                pass

        def scandir(path="."):
            col.count("perturbed_directory_listings")
            return Shuffled(real_scandir(path))

        def listdir(path="."):
            col.count("perturbed_directory_listings")
            x = real_listdir(path)
            rr.shuffle(x)
            return x
        os.scandir, os.listdir = scandir, listdir

        def undo():
            os.scandir, os.listdir = real_scandir, real_listdir
        return undo

    def explain(self, path, extra, ref, t, root, args) -> str:
        rel = os.path.relpath(path, root)
        if rel.startswith(".."):
            return "reached-through-symlink/outside-tree"
        for k, (kind, target) in t["links"].items():
            if os.path.realpath(os.path.join(root, k)) == path and kind.startswith("file"):
                return "reached-through-symlink/file-link"
        if any(ref.rule_decision(path, False, g) is True for g in ref.ignores) or ref.glob_ignored(path, root):
            return "flowmarkignore-rule" + ("/nested-file" if len(ref.ignores) > 1 or root not in ref.ignores else "")
        if ref.in_excluded_dir(path, root):
            return "excluded-directory" + ("/via-glob" if any(c in a for a in args for c in "*?[") else "")
        if ref.too_big(path):
            return "size-limit"
        if not ref.included_name(os.path.basename(path)):
            return "include-pattern"
        return "other"


PROP = C17()
