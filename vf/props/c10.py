"""C10 — cleanups and list-spacing options do exactly what they say and nothing else.

Monitors:
  cleanups  cleanups on vs off: the on-tree must equal the off-tree with exactly the documented rewrite
            applied (a heading whose entire content is one bold run loses the bold; bold-italic becomes
            italic), and the outputs may differ only on heading lines
  spacing   list_spacing loose / tight vs preserve: identical once blank lines are removed (line for line);
            trees identical apart from list tightness; loose => every list with >1 item is loose; tight =>
            a list is tight exactly when every item holds a single block; preserve => tightness as authored
"""
from __future__ import annotations

import re

from vf import astn, fm
from vf.core import Collector
from vf.docbase import DocProp, first_line_diff, opts_key, rand_opts
from vf.listscan import sibling_gaps


def unbold(n):
    """The documented cleanup, applied to a normalised tree."""
    if not isinstance(n, tuple):
        return n
    if n and n[0] == "H":
        inl = n[2]
        # "a heading whose entire content is bold loses the bold": bold nested in bold is still entirely bold, so the
        # rewrite is applied until the content is no longer one bold span (fixed record 025147b)
        while len(inl) == 1 and inl[0][0] == "STRONG":
            inl = inl[0][1]
        if len(inl) == 1 and inl[0][0] == "EM":
            inner = inl[0][1]
            while len(inner) == 1 and inner[0][0] == "STRONG":
                inner = inner[0][1]
            inl = (("EM", inner),)
        return ("H", n[1], inl)
    return tuple(unbold(x) for x in n)


def drop_tight(n):
    if not isinstance(n, tuple):
        return n
    if n and n[0] == "LIST":
        return ("LIST", n[1], n[2], None, drop_tight(n[4]))
    return tuple(drop_tight(x) for x in n)


def lists_of(n, out=None):
    out = out if out is not None else []
    if isinstance(n, tuple):
        if n and n[0] == "LIST":
            out.append(n)
        for x in n:
            lists_of(x, out)
    return out


def nonblank(text: str) -> list[str]:
    return [ln.rstrip() for ln in text.split("\n") if ln.strip(" >\t") != ""]


_HEADING_LINE = re.compile(r"^(?:[ >]|[-*+] |\d+[.)] |\[\^[^\]]+\]: )*#")


def is_heading_line(ln: str) -> bool:
    """An ATX heading line behind any mix of container prefixes (quote markers, list markers, footnote label, indentation)."""
    return bool(_HEADING_LINE.match(ln))


class C10(DocProp):
    id = "C10"
    rule = ("cases: G-doc documents (nested / mixed / task lists, lists in quotes and footnotes, items with several "
            "blocks; headings with every mix of emphasis incl. all-bold, bold-italic, partly bold, setext) x random "
            "other options; each compared under cleanups on/off and under list_spacing preserve/loose/tight. "
            "Non-trivial: the document has a heading with emphasis (cleanups) / a list (spacing); distinct by hash.")
    assumptions = ["trees are read with flowmark's own reader; 'blank line' includes lines holding only block-quote markers"]
    deciding = {"cleanups": {"quick": 1500, "thorough": 15000}, "spacing": {"quick": 3000, "thorough": 30000}}
    profiles = ["core", "core", "typo", "tags"]
    ndocs = {"quick": 60, "thorough": 600}

    def cases(self, tier, seed, shard, nshards):
        for r, c in self.doc_cases(tier, seed, shard, nshards):
            c["opts"] = [rand_opts(r), rand_opts(r, widths=[0, 30, 88])]
            yield c
            # heading zoo: every mix of emphasis
            hs = []
            for _ in range(r.randint(2, 5)):
                core = r.choice(["alpha beta", "x", "one two three"])
                form = r.choice(["**{}**", "***{}***", "__{}__", "*{}*", "**{}** tail", "head **{}**", "**a** **b**", "***{}** rest*",
                                 "*a **{}***", "`{}`", "**{}** ##", "[**{}**](http://x.y)", "**{}**\\", "_**{}**_", "**_{}_**", "{}",
                                 "****{}****", "**__{}__**", "__**{}**__"])
                txt = form.format(core)
                if r.random() < 0.25 and not txt.endswith("#"):
                    # (a setext heading whose text ends in '#'s loses them when respelled as ATX: C01 territory)
                    hs.append(txt + "\n" + r.choice(["===", "---"]))
                else:
                    hs.append("#" * r.randint(1, 4) + " " + txt)
            body = r.choice(["Body **bold** text.", "Body text.", "Body *em* and `**` code."])
            text = "\n\n".join(h + "\n\n" + body for h in hs) + "\n"
            if r.random() < 0.3:
                # the underscore spelling of the same emphasis, and no asterisk anywhere in the document
                text = text.replace("`**`", "`x`").replace("*", "_")
            yield {"kind": "text", "text": text, "feats": ["heading-zoo"], "profile": "heading-zoo", "opts": [rand_opts(r)]}

    def check(self, case, col: Collector):
        text, feats = self.load(case)
        self.feats_hist(col, feats)
        for o in case["opts"]:
            o = dict(o, plaintext=False)
            self.check_cleanups(text, o, case, col)
            self.check_spacing(text, o, case, col)

    def check_cleanups(self, text, o, case, col):
        col.case()
        off = fm.fmt(text, **dict(o, cleanups=False))
        on = fm.fmt(text, **dict(o, cleanups=True))
        sub = dict(case, opts=[o])
        if isinstance(on, fm.Raised) or isinstance(off, fm.Raised):
            if isinstance(on, fm.Raised) and not isinstance(off, fm.Raised):
                col.violation("cleanups", f"C10/cleanups/raised-only-with-option/{on.kind}", sub, on.text)
            return
        col.mon("cleanups")
        ta, tb = astn.tree(off), astn.tree(on)
        if on != off:
            col.distinct("cleanups", case.get("seed", text), opts_key(o))
        want = unbold(ta)
        if tb != want:
            df = astn.first_diff(want, tb)
            col.violation("cleanups", "C10/cleanups/tree-differs-from-documented-rewrite", sub,
                          {"path": list(df[0]), "expected": repr(df[1])[:300], "got": repr(df[2])[:300]})
            return
        la, lb = off.split("\n"), on.split("\n")
        if len(la) != len(lb):
            col.violation("cleanups", "C10/cleanups/line-count-changed", sub, {"off": len(la), "on": len(lb)})
            return
        for x, y in zip(la, lb):
            if x != y and not (is_heading_line(x) and is_heading_line(y)):
                col.violation("cleanups", "C10/cleanups/non-heading-line-changed", sub, {"off": x[:160], "on": y[:160]})
                return

    def check_spacing(self, text, o, case, col):
        pres = fm.fmt(text, **dict(o, list_spacing="preserve"))
        if isinstance(pres, fm.Raised):
            return
        tp = astn.tree(pres)
        ref_in = astn.tree(astn.reference_input(text))
        nl = len(lists_of(tp))
        for mode in ("loose", "tight"):
            col.case()
            if (len(text) + o["width"]) % 2:
                out = fm.fmt(text, **dict(o, list_spacing=mode))
            else:
                # the mode given as a plain string (ListSpacing is a str enum; config files deliver strings)
                kw = fm.opts_to_kwargs(dict(fm.MD_DEFAULTS, **o))
                kw["list_spacing"] = mode
                out = fm.call(fm.reformat_text, text, **kw)
                col.count("mode_given_as_plain_string")
            sub = dict(case, opts=[dict(o, list_spacing=mode)])
            if isinstance(out, fm.Raised):
                col.violation("spacing", f"C10/spacing/raised-only-with-option/{out.kind}", sub, out.text)
                continue
            col.mon("spacing")
            if nl:
                col.distinct("spacing", case.get("seed", text), mode, opts_key(o))
            a, b = nonblank(pres), nonblank(out)
            if a != b:
                d = first_line_diff("\n".join(a), "\n".join(b))
                col.violation("spacing", f"C10/spacing/{mode}/changed-more-than-blank-lines", sub,
                              {"line": d[0], "preserve": d[1], mode: d[2]})
                continue
            to = astn.tree(out)
            if drop_tight(to) != drop_tight(tp):
                df = astn.first_diff(drop_tight(tp), drop_tight(to))
                col.violation("spacing", f"C10/spacing/{mode}/structure-changed", sub,
                              {"path": list(df[0]), "preserve": repr(df[1])[:300], mode: repr(df[2])[:300]})
                continue
            if mode == "loose":
                for path, sep, line in sibling_gaps(out.split("\n")):
                    col.count("sibling_gaps_checked")
                    if not sep:
                        col.violation("spacing", "C10/spacing/loose/sibling-items-not-separated-by-blank-line", sub,
                                      {"second_item": line, "where": path})
                        break
            for L in lists_of(to):
                items = L[4]
                single = all(len(it[1]) == 1 for it in items)
                # an item with no content holds no block: the statement decides neither way for lists that have one
                multi = any(len(it[1]) > 1 for it in items)
                col.hist("list_shapes", f"{mode}:items={min(len(items), 4)},single_block={single}")
                if mode == "loose" and len(items) > 1 and L[3]:
                    col.violation("spacing", "C10/spacing/loose/list-still-tight", sub, {"list": repr(L)[:300]})
                    break
                if mode == "tight" and single and not L[3]:
                    col.violation("spacing", "C10/spacing/tight/single-block-list-still-loose", sub, {"list": repr(L)[:300]})
                    break
                if mode == "tight" and multi and L[3] and len(items) > 1:
                    col.violation("spacing", "C10/spacing/tight/multi-block-list-made-tight", sub, {"list": repr(L)[:300]})
                    break
        # preserve keeps every list as authored
        col.case()
        col.mon("spacing")
        lp, li = lists_of(tp), lists_of(ref_in)
        if len(lp) == len(li):
            for x, y in zip(li, lp):
                if x[3] != y[3]:
                    col.violation("spacing", "C10/spacing/preserve/tightness-changed", dict(case, opts=[dict(o, list_spacing="preserve")]),
                                  {"input_tight": x[3], "output_tight": y[3], "list": repr(y)[:300]})
                    break


PROP = C10()
