"""C13 — each formatting call is isolated from other calls.

Sequential model: the same call run alone (fresh interpreter). Monitors:
  history    random sequences of calls (documents with link definitions, footnotes, nested containers, tags;
             random options) run in this long-lived worker process; every result is compared with the result
             of the same call in (a) a second process that runs the sequence in REVERSE order and (b), for a
             sample, a fresh process that runs only that call
  schedule   K in {2,3,4} threads each running a job list under a deterministic scheduler: exactly one thread
             runs at a time, and at every Python function start (sys.monitoring PY_START) inside flowmark or
             marko the seeded PRNG may hand the baton to another thread; results must equal the solo results.
             The same seed replays the same interleaving.
  stress     free-running threads with a tiny switch interval
"""
from __future__ import annotations

import hashlib
import json
import os
import random
import subprocess
import sys
import threading

from vf import fm
from vf.core import VF_HOME, VF_REPO, Collector, Inconclusive, Prop, shard_rng
from vf.docbase import rand_opts
from vf.gen_doc import gen_doc

RUNNER = r'''
import json, sys
from vf import fm
jobs = json.load(sys.stdin)
out = []
for text, o in jobs:
    r = fm.fmt(text, **o)
    out.append(r if isinstance(r, str) else "RAISED:" + (r.kind if r.kind == "RecursionError" else r.text))
json.dump(out, sys.stdout)
'''


COLD = r'''
import json, sys, threading
n = int(sys.argv[1]); jobs = json.load(sys.stdin)
import flowmark, marko
from vf import fm
roots = (flowmark.__path__[0], marko.__path__[0])
mon = sys.monitoring; tool = mon.DEBUGGER_ID; mon.use_tool_id(tool, "vf-cold")
count = [0]; t0 = [None]; go_b = threading.Event(); b_done = threading.Event(); fired = [False]; blocked = [False]
def on_start(code, off):
    # every Python function the first call starts is a point, the standard library's too (re.compile() inside a loop that
    # fills a module-level table, ...): the program can be preempted there just as well
    if threading.get_ident() == t0[0] and not fired[0]:
        count[0] += 1
        if count[0] == n:
            fired[0] = True
            go_b.set()
            if not b_done.wait(8):
                blocked[0] = True   # the other call waits for something this one holds (an import lock): carry on
mon.register_callback(tool, mon.events.PY_START, on_start)
res = [None, None]
def run(i):
    if i == 0:
        t0[0] = threading.get_ident()
    else:
        go_b.wait(60)
    t, o = jobs[i]
    r = fm.fmt(t, **o)
    res[i] = r if isinstance(r, str) else "RAISED:" + r.kind
    (b_done if i == 1 else go_b).set()
mon.set_events(tool, mon.events.PY_START)
ths = [threading.Thread(target=run, args=(i,)) for i in range(2)]
[t.start() for t in ths]; [t.join(120) for t in ths]
json.dump({"res": res, "points": count[0], "fired": fired[0], "blocked": blocked[0]}, sys.stdout)
'''


def run_elsewhere(jobs):
    env = dict(os.environ)
    p = subprocess.run([sys.executable, "-c", RUNNER], input=json.dumps(jobs), capture_output=True, text=True, env=env, timeout=600)
    if p.returncode != 0:
        raise Inconclusive("reference subprocess failed: " + p.stderr[-300:])
    return json.loads(p.stdout)


def make_jobs(r: random.Random, n: int, deep: bool = False):
    jobs = []
    for _ in range(n):
        prof = r.choice(["core", "core", "typo", "tags"])
        d = gen_doc(r.getrandbits(40), prof, nblocks=(1, 4))
        o = rand_opts(r, widths=[0, 30, 88])
        if r.random() < 0.3:
            o["width"] = 88  # many calls share options (caches keyed on options)
            o["semantic"] = True
        jobs.append([d.text, o])
    # hand-made documents whose effects on shared state would be visible in others
    special = [
        ["[ref]: http://shared.example/x \"Title\"\n\nSee [ref] and [text][ref].\n\n# Heading at end\n", rand_opts(r, force={"width": 88})],
        ["A [link](http://shared.example/x \"Title\") without a definition here.\n", rand_opts(r, force={"width": 88})],
        ["* * *\n\nText after rule.\n\n| a | b |\n|---|---|\n| c | d |\n\nAfter table.\n", rand_opts(r, force={"width": 88})],
        ["Text[^n1] here.\n\n[^n1]: The note.\n", rand_opts(r, force={"width": 88})],
        ["Another[^n1] doc with its own note.\n\n[^n1]: Different note.\n\n## Last heading\n", rand_opts(r, force={"width": 88})],
        ["- loose\n\n- list\n\n  > quote in item\n\n1. tight\n2. list\n", rand_opts(r, force={"width": 30})],
        ["`code span` and [a link](http://u.v) and {% tag %} and <b>html</b> text to wrap around the width of thirty.\n", rand_opts(r, force={"width": 30})],
    ]
    # an opener that is never closed next to a code span, then (in another document) closed tags of every kind next to one
    special.append(["`a` b {{ never closed and {% neither and {# nor this and <!-- that one, d\n", rand_opts(r, force={"width": 88, "plaintext": False})])
    special.append(["x `y` {{ __version__ }} and {# _not_ emphasis #} and {% if a.__b__ %} and <!-- _c_ --> `z`\n", rand_opts(r, force={"width": 88, "plaintext": False})])
    # a destination with '&' + a legacy entity name without ';' (&reg, &not, &amp): several links to one definition
    ent = "http://x.example/?lang=en&region=eu&notify=1&copy=2"
    special.append([f"[r]: {ent}\n\nSee [one]({ent}) and [two]({ent}) and [three]({ent}) and [four]({ent}) here.\n", rand_opts(r, force={"width": 88, "plaintext": False})])
    # two documents with more than 16 reference definitions each, the same destinations under different labels
    for lab in ("alpha", "beta"):
        special.append(["".join(f"See [site {i}][{lab}-{i}] and [{lab}-{i}] too.\n\n" for i in range(20)) +
                        "".join(f"[{lab}-{i}]: http://site.example/{i}\n" for i in range(20)), rand_opts(r, force={"width": 88, "plaintext": False})])
    for sp in special:
        jobs.insert(r.randint(0, len(jobs)), sp)
    if deep:
        # documents nested deeper than the interpreter lets the reader recurse (they raise RecursionError, a listed finding of
        # C12): whatever a call does about that must not change what LATER calls do (a raised limit left behind, ...). One far
        # too deep, one moderately too deep, in both orders somewhere in the sequence.
        far, near = "_a " * 6000 + "b" + " c_" * 6000 + "\n", "_a " * 1500 + "b" + " c_" * 1500 + "\n"
        far_l, near_l = "".join("  " * i + "- x\n" for i in range(900)), "".join("  " * i + "- x\n" for i in range(480))
        o = rand_opts(r, force={"width": 88, "plaintext": False})
        k = r.randint(0, len(jobs))
        jobs[k:k] = [[near, o], [far, dict(o)], [near, dict(o)], [near_l, dict(o)], [far_l, dict(o)], [near_l, dict(o)]]
    return jobs


class Sched:
    """Deterministic cooperative scheduler for K worker threads (exactly one runs at a time)."""

    def __init__(self, nthreads: int, seed: int, p_switch: float):
        self.rnd = random.Random(seed)
        self.p = p_switch
        self.sems = [threading.Semaphore(0) for _ in range(nthreads)]
        self.alive = [True] * nthreads
        self.cur = None
        self.tid: dict[int, int] = {}
        self.switches = 0
        self.points = 0
        self.trace = hashlib.sha256()
        self.overlaps: set = set()
        self.job_of = [0] * nthreads
        self.parked_after_block = 0
        self.handovers_from_blocked = 0

    target = None       # (qualified function name, occurrence): preempt thread 0 exactly there, once
    seen_target = 0
    record = None       # set -> collects the qualified names of all functions thread 0 starts

    def yield_point(self, code=None):
        i = self.tid.get(threading.get_ident())
        if i is None:
            return
        if i != self.cur:
            # this thread was blocked on a lock of the program itself while it held the baton and the baton was handed on
            # (see run()); now that it runs again it waits for its turn like everybody else
            self.parked_after_block += 1
            self.sems[i].acquire()
        self.points += 1
        if self.target is not None or self.record is not None:
            # systematic mode (preemption bound 1): thread 0 is preempted at the n-th start of one chosen function and the
            # other thread then runs its whole job before thread 0 resumes
            if i == 0 and code is not None:
                q = code.co_qualname
                if self.record is not None:
                    self.record[q] = self.record.get(q, 0) + 1
                if self.target is not None and q == self.target[0]:
                    self.seen_target += 1
                    if self.seen_target == self.target[1]:
                        self.switch(i)
            return
        if self.rnd.random() < self.p:
            self.switch(i)

    lock_waits = 0

    def blocked_yield(self) -> bool:
        """Called by a thread that cannot get a lock of the program: let somebody else run. False if nobody else can."""
        i = self.tid.get(threading.get_ident())
        if i is None:
            return False
        if i != self.cur:
            self.sems[i].acquire()
            return True
        if not any(a and k != i for k, a in enumerate(self.alive)):
            return False
        self.switch(i)
        return True

    def switch(self, i, finished=False):
        cands = [k for k, a in enumerate(self.alive) if a and k != i]
        if not cands:
            return
        nxt = self.rnd.choice(cands)
        self.switches += 1
        self.trace.update(bytes([nxt]))
        self.overlaps.add((i, self.job_of[i], nxt, self.job_of[nxt]))
        self.cur = nxt
        self.sems[nxt].release()
        if not finished:
            self.sems[i].acquire()

    def run(self, jobs_per_thread):
        res = [[None] * len(j) for j in jobs_per_thread]

        def worker(i):
            self.tid[threading.get_ident()] = i
            self.sems[i].acquire()
            try:
                for n, (t, o) in enumerate(jobs_per_thread[i]):
                    self.job_of[i] = n
                    r = fm.fmt(t, **o)
                    res[i][n] = r if isinstance(r, str) else "RAISED:" + (r.kind if r.kind == "RecursionError" else r.text)
            finally:
                self.alive[i] = False
                self.switch(i, finished=True)

        ths = [threading.Thread(target=worker, args=(i,)) for i in range(len(jobs_per_thread))]
        for t in ths:
            t.start()
        self.cur = 0
        self.sems[0].release()
        # The thread holding the baton may block on a lock that belongs to the program under test and is held by a parked
        # thread (an interleaving the program cannot have). That is not a finding: when nothing has moved for a while the
        # baton is handed to another thread that can run.
        last, idle = -1, 0
        deadline = __import__("time").monotonic() + 300
        while any(t.is_alive() for t in ths) and __import__("time").monotonic() < deadline:
            ths[0].join(0.05) if ths[0].is_alive() else __import__("time").sleep(0.05)
            now = self.points + self.switches
            if now != last:
                last, idle = now, 0
                continue
            idle += 1
            if idle >= 6:  # 0.3 s without a single function start
                cands = [k for k, a in enumerate(self.alive) if a and k != self.cur]
                if cands:
                    nxt = self.rnd.choice(cands)
                    self.handovers_from_blocked += 1
                    self.cur = nxt
                    self.sems[nxt].release()
                idle = 0
        for t in ths:
            t.join(1)
        if any(t.is_alive() for t in ths):
            raise Inconclusive("scheduled threads did not finish within the watchdog time (no verdict from this schedule)")
        return res


class CoopLock:
    """Stand-in for a lock object of the program under test while the deterministic scheduler is active: instead of blocking
    inside C (where the scheduler cannot see it) a thread that cannot get the lock hands the baton on and retries when it is
    its turn again. Outside a scheduled run it behaves exactly like the real lock."""

    def __init__(self, real, owner):
        self._real, self._owner = real, owner

    def acquire(self, blocking=True, timeout=-1):
        S = self._owner.S
        if S is None or not blocking or S.tid.get(threading.get_ident()) is None:
            return self._real.acquire(blocking, timeout)
        while not self._real.acquire(False):
            S.lock_waits += 1
            if not S.blocked_yield():
                return self._real.acquire(True, timeout)  # nobody else can run: wait for real
        return True

    def release(self):
        self._real.release()

    def locked(self):
        return self._real.locked() if hasattr(self._real, "locked") else False

    __enter__ = acquire

    def __exit__(self, *a):
        self._real.release()


class C13(Prop):
    id = "C13"
    rule = ("cases: (a) call sequences of 20..40 documents (G-doc profiles + hand-made documents with shared link "
            "definitions, footnote labels, trailing headings, leading tables/rules) under random options, compared call "
            "by call with a reversed-order run in another process and with fresh single-call processes; (b) 2..4 threads "
            "x 4..6 jobs under a deterministic PY_START scheduler (seeded; switch probability 0.5%..5%), several schedules "
            "per job set; (c) 8 free-running threads; (d) systematic single preemption: two calls, the first preempted at the n-th start of "
            "function F for every F it starts (recorded per document), the second then runs completely. Non-trivial: >= 2 different documents in the sequence / >= 1 forced "
            "switch; distinct by hash of (sequence | schedule switch trace).")
    assumptions = ["interleavings are explored at Python function-call granularity (PY_START events of code objects under "
                   "flowmark/ and marko/), the granularity the property states; CPython with the GIL",
                   "the reference for a call is its result in another process (reversed order / alone)"]
    deciding = {"history": {"quick": 600, "thorough": 6000}, "schedule": {"quick": 100, "thorough": 1000}, "reuse": {"quick": 500, "thorough": 5000}}
    soft_timeout = 600.0
    hard_timeout = 1500.0

    def cases(self, tier, seed, shard, nshards):
        r = shard_rng(seed, self.id, shard)
        for _ in range(2 if tier == "quick" else 12):
            yield {"kind": "history", "seed": r.getrandbits(40), "n": r.randint(20, 40), "deep": shard % 4 == 0}
        for _ in range(2 if tier == "quick" else 12):
            yield {"kind": "schedule", "seed": r.getrandbits(40), "threads": r.choice([2, 3, 4]), "jobs": r.randint(4, 6),
                   "schedules": 6 if tier == "quick" else 12, "p": r.choice([0.005, 0.02, 0.05])}
        yield {"kind": "stress", "seed": r.getrandbits(40), "threads": 8, "jobs": 6}
        if shard % 4 == 1 or tier != "quick":
            # the FIRST two calls of a process, one preempted by the other at its n-th function start (lazily built module state)
            yield {"kind": "coldstart", "seed": r.getrandbits(40), "points": [1, 2, 3, 5, 8, 13, 21, 34, 55, 89, 144, 233, 377, 610, 987, 1597, 2584, 4181, 6765, 10946, 17711] if tier == "quick" else
                   sorted(set([int(1.2 ** k) for k in range(1, 58)]))}
        for _ in range(2 if tier == "quick" else 12):
            yield {"kind": "reuse", "seed": r.getrandbits(40), "n": r.randint(12, 24)}
        for _ in range(1 if tier == "quick" else 6):
            yield {"kind": "preempt", "seed": r.getrandbits(40), "max_points": 60 if tier == "quick" else 400}
        if shard % 2 == 0 or tier != "quick":
            yield {"kind": "preempt", "seed": r.getrandbits(40), "max_points": 40 if tier == "quick" else 400, "typography": True}
        if shard % 4 == 3 or tier != "quick":
            yield {"kind": "preempt", "seed": r.getrandbits(40), "max_points": 60 if tier == "quick" else 400, "links": True}
        if shard % 2 == 0 or tier != "quick":
            # a document nested beyond the recursion limit among the concurrent jobs (process-wide limits saved and restored per call)
            yield {"kind": "schedule", "seed": r.getrandbits(40), "threads": 2, "jobs": 3, "schedules": 8 if tier == "quick" else 16, "p": r.choice([0.01, 0.02, 0.05]), "deep": True}

    def check(self, case, col: Collector):
        # every case starts from the interpreter state the worker started with: a process-wide limit that an earlier case left
        # changed would hide what the next one is looking for (counted, so that the evidence shows it happened)
        if sys.getrecursionlimit() != self.base_recursion_limit:
            col.count("recursion_limit_found_changed_by_an_earlier_case")
            sys.setrecursionlimit(self.base_recursion_limit)
        getattr(self, "_check_" + case["kind"])(case, col)

    def setup_worker(self, col, tier):
        self.base_recursion_limit = sys.getrecursionlimit()
        self.mon = getattr(sys, "monitoring", None)
        if self.mon is None:
            col.inconcl("sys.monitoring unavailable: the deterministic scheduler cannot run")
            return
        import flowmark
        import marko
        self.roots = (flowmark.__path__[0], marko.__path__[0])
        self.S = None
        mon = self.mon
        try:
            mon.use_tool_id(mon.DEBUGGER_ID, "vf-c13")
        except ValueError:
            pass

        def on_start(code, off):
            if code.co_filename.startswith(self.roots):
                if self.S is not None:
                    self.S.yield_point(code)
            else:
                return mon.DISABLE
        mon.register_callback(mon.DEBUGGER_ID, mon.events.PY_START, on_start)
        # locks the program itself owns (module-level objects): make them visible to the scheduler
        import _thread
        lock_types = (type(_thread.allocate_lock()), type(threading.RLock()))
        n = 0
        for name, mod in list(sys.modules.items()):
            f = getattr(mod, "__file__", None) or ""
            if not f.startswith(self.roots):
                continue
            for attr, val in list(vars(mod).items()):
                if isinstance(val, lock_types):
                    setattr(mod, attr, CoopLock(val, self))
                    n += 1
        col.count("program_locks_made_cooperative", n)

    def _check_history(self, case, col):
        r = random.Random(case["seed"])
        jobs = make_jobs(r, case["n"], deep=bool(case.get("deep")))
        here = []
        for t, o in jobs:
            x = fm.fmt(t, **o)
            here.append(x if isinstance(x, str) else "RAISED:" + (x.kind if x.kind == "RecursionError" else x.text))
        rev = run_elsewhere(list(reversed(jobs)))[::-1]
        sample = r.sample(range(len(jobs)), 3)
        alone = {i: run_elsewhere([jobs[i]])[0] for i in sample}
        col.distinct("history", case["seed"])
        for i, (a, b) in enumerate(zip(here, rev)):
            col.case()
            col.mon("history")
            if a != b:
                col.violation("history", "C13/history/result-depends-on-earlier-calls", dict(case, index=i),
                              {"index": i, "doc_head": jobs[i][0][:120], "opts": jobs[i][1], "in_sequence": a[:200], "reversed_sequence": b[:200]})
                break
        for i, b in alone.items():
            col.case()
            col.mon("history")
            if here[i] != b:
                col.violation("history", "C13/history/result-differs-from-fresh-process", dict(case, index=i),
                              {"index": i, "doc_head": jobs[i][0][:120], "in_sequence": here[i][:200], "alone": b[:200]})
        col.hist("history_len", len(jobs))
        col.sample({"kind": "history", "seed": case["seed"], "calls": len(jobs), "first_doc_head": jobs[0][0][:80]})

    def _check_coldstart(self, case, col):
        if self.mon is None:
            return
        r = random.Random(case["seed"])
        docs = ["`code span` and [a link](http://u.v) and {% tag %} and <b>html</b> text to wrap around the width of thirty, more [two word link](http://x.y/z) here.\n",
                "Start [two words link](http://x.y) {% tag a=1 b=\"x y\" %} <!-- a comment here --> <span class=\"a b\"> more `code with spaces` words to wrap {{ v | f(\"a b\") }} end.\n",
                "- item with {% field kind=\"string\" label=\"Full Name\" %}{% /field %} and ![alt text](img.png \"ti tle\") inside a list item that wraps\n"]
        a, b = r.sample(docs, 2)
        jobs = [[a, rand_opts(r, widths=[20, 30], force={"plaintext": False})], [b, rand_opts(r, widths=[20, 30], force={"plaintext": False})]]
        solo = [(lambda x: x if isinstance(x, str) else "RAISED:" + x.kind)(fm.fmt(t, **o)) for t, o in jobs]
        for n in case["points"]:
            p = subprocess.run([sys.executable, "-c", COLD, str(n)], input=json.dumps(jobs), capture_output=True, text=True, env=dict(os.environ), timeout=300)
            col.case()
            col.mon("schedule")
            if p.returncode != 0:
                col.count("coldstart_subprocess_failed")
                col.note("coldstart subprocess failed: " + p.stderr[-200:])
                continue
            out = json.loads(p.stdout)
            col.count("coldstart_processes")
            if out["fired"]:
                col.distinct("coldstart", case["seed"], n)
            if out["blocked"]:
                col.count("coldstart_second_call_blocked_on_the_first")
            if out["res"] != solo:
                i = 0 if out["res"][0] != solo[0] else 1
                col.violation("schedule", "C13/coldstart/first-concurrent-calls-of-a-process-differ-from-solo", dict(case, point=n),
                              {"preempted_at_function_start": n, "call": i, "solo": solo[i][:200], "concurrent": (out["res"][i] or "")[:200]})
                return

    def _check_reuse(self, case, col):
        """One flowmark_markdown() object (public: flowmark.__all__) formats a sequence of documents, parse + render each: every
        result equals what a fresh object gives for that document alone, in this order and in the reverse order."""
        from flowmark import flowmark_markdown
        r = random.Random(case["seed"])
        docs = [t for t, _o in make_jobs(r, case["n"])]
        # pairs that share destinations / labels / footnote names with different definitions
        docs += ["[one]: http://shared.example/x \"Title\"\n\nSee [text](http://shared.example/x \"Title\") and [one].\n",
                 "A [link](http://shared.example/x \"Title\") here, no definitions in this document.\n",
                 "[one]: http://other.example/y\n\nSee [text](http://shared.example/x \"Title\") and [one] and [t](http://other.example/y).\n"]
        r.shuffle(docs)
        w = r.choice([30, 88])
        mk = lambda: flowmark_markdown(fm.line_wrap_to_width(w, is_markdown=True))  # noqa: E731
        fresh = []
        for t in docs:
            m = mk()
            fresh.append(fm.call(lambda: m.render(m.parse(t))))
        for order in (list(range(len(docs))), list(reversed(range(len(docs))))):
            shared = mk()
            for i in order:
                col.case()
                col.mon("reuse")
                got = fm.call(lambda: shared.render(shared.parse(docs[i])))
                a = got if isinstance(got, str) else "RAISED:" + got.kind
                b = fresh[i] if isinstance(fresh[i], str) else "RAISED:" + fresh[i].kind
                if a != b:
                    d = next((k for k, (x, y) in enumerate(zip(a.split("\n"), b.split("\n"))) if x != y), None)
                    col.violation("history", "C13/reuse/one-markdown-object-gives-another-result-than-a-fresh-one", dict(case, index=i),
                                  {"doc_head": docs[i][:160], "line": d, "reused": a.split("\n")[d][:160] if d is not None else a[-80:],
                                   "fresh": b.split("\n")[d][:160] if d is not None else b[-80:]})
                    return
        col.distinct("reuse", case["seed"])

    def _check_schedule(self, case, col):
        if self.mon is None:
            return
        r = random.Random(case["seed"])
        K, J = case["threads"], case["jobs"]
        pool = make_jobs(r, K * J)
        r.shuffle(pool)
        jobs = [pool[i * J:(i + 1) * J] for i in range(K)]
        if case.get("deep"):
            deep_doc = ["".join("  " * i + "- x\n" for i in range(300)), rand_opts(r, force={"width": 88, "plaintext": False})]
            jobs[1][1] = deep_doc
            jobs[0][2] = [deep_doc[0], dict(deep_doc[1])]
        # threads share some documents and options (same cache keys), others differ
        for i in range(1, K):
            jobs[i][0] = jobs[0][0]
        solo = [[(lambda x: x if isinstance(x, str) else "RAISED:" + (x.kind if x.kind == "RecursionError" else x.text))(fm.fmt(t, **o)) for t, o in js] for js in jobs]
        mon = self.mon
        sigs = set()
        for s in range(case["schedules"]):
            sched_seed = case["seed"] * 1000 + s
            self.S = Sched(K, sched_seed, case["p"])
            mon.set_events(mon.DEBUGGER_ID, mon.events.PY_START)
            try:
                res = self.S.run(jobs)
            finally:
                mon.set_events(mon.DEBUGGER_ID, 0)
                mon.restart_events()
            S, self.S = self.S, None
            col.case()
            col.mon("schedule")
            sig = S.trace.hexdigest()
            sigs.add(sig)
            col.count("forced_switches", S.switches)
            col.count("yield_points", S.points)
            col.count("distinct_job_overlaps", len(S.overlaps))
            col.count("handovers_from_a_thread_blocked_on_a_program_lock", S.handovers_from_blocked)
            col.count("cooperative_lock_waits", S.lock_waits)
            if S.switches:
                col.distinct("schedule", sig)
            if res != solo:
                bad = [(i, n) for i in range(K) for n in range(len(jobs[i])) if res[i][n] != solo[i][n]]
                i, n = bad[0]
                col.violation("schedule", "C13/schedule/concurrent-result-differs-from-solo", dict(case, schedule_seed=sched_seed),
                              {"thread": i, "job": n, "switches": S.switches, "solo": (solo[i][n] or "")[:200], "concurrent": (res[i][n] or "")[:200]})
                break
        col.hist("threads", K)
        col.sample({"kind": "schedule", "threads": K, "jobs_per_thread": J, "schedules": len(sigs), "p_switch": case["p"]})

    def _check_preempt(self, case, col):
        """Two threads, one job each; thread 0 is preempted once, at the n-th start of function F, thread 1 then runs its whole
        document, thread 0 resumes. F ranges over the functions thread 0 actually starts (recorded first), so every function
        boundary inside a call is tried as the place where another call intervenes."""
        if self.mon is None:
            return
        r = random.Random(case["seed"])
        pool = make_jobs(r, 12)
        rich = [j for j in pool if "```" in j[0] or "~~~" in j[0]] or pool
        a = r.choice(rich)
        b = r.choice([j for j in rich if j is not a] or pool)
        b = [b[0], dict(a[1])] if r.random() < 0.5 else b  # same options half of the time (shared cache keys)
        if case.get("links"):
            # several links to one reference definition whose destination holds '&' + legacy entity names; the other call renders
            # links too (a renderer that consults process-wide state between two links of one call)
            ent = "http://x.example/?lang=en&region=eu&notify=1&copy=2"
            ta = f"[r]: {ent}\n\nSee [one]({ent}) and [two]({ent}) and [three]({ent}) and [four]({ent}) here.\n"
            tb = "[q]: http://y.example/a?b=1&c=2\n\nA [link](http://y.example/a?b=1&c=2) and <http://z.example/?x=1&y=2> and &amp; &copy; text.\n"
            oo = rand_opts(r, widths=[30, 88], force={"plaintext": False})
            a, b = [ta, oo], [tb, dict(oo)]
        if case.get("typography"):
            # both calls rewrite text (smart quotes, ellipses, cleanups): documents with dot runs and quotes in prose AND inside
            # tags / comments, at different places in the two documents
            ta = "Wait... {% note text=\"and so... on\" %} more... \"text\" {# later... maybe it's #} end... really.\n\n# **Bold... title**\n\nSo... <!-- x... \"y\" --> it's... fine... {{ v... }} done...\n"
            tb = "{# first... it's #} Prose... \"here\" and... there... {{ x... }} and 'more'... text {% t a=\"b...\" %} tail...\n\n## __Other... title__\n"
            oo = rand_opts(r, widths=[30, 88], force={"smartquotes": True, "ellipses": True, "cleanups": True, "plaintext": False})
            a, b = ([ta, oo], [tb, dict(oo)]) if r.random() < 0.5 else ([tb, oo], [ta, dict(oo)])
        jobs = [[a], [b]]
        solo = [[(lambda x: x if isinstance(x, str) else "RAISED:" + (x.kind if x.kind == "RecursionError" else x.text))(fm.fmt(t, **o)) for t, o in js] for js in jobs]
        mon = self.mon

        def run(target, record=None):
            self.S = Sched(2, case["seed"], 0.0)
            self.S.target, self.S.record = target, record
            mon.set_events(mon.DEBUGGER_ID, mon.events.PY_START)
            try:
                return self.S.run(jobs), self.S
            finally:
                mon.set_events(mon.DEBUGGER_ID, 0)
                mon.restart_events()
                self.S = None
        rec: dict = {}
        run(None, rec)
        names = sorted(rec)
        r.shuffle(names)
        if case.get("links"):
            names.sort(key=lambda q: not any(k in q.lower() for k in ("link", "ref", "url", "dest", "exit", "enter")))
        if case.get("typography"):
            # the text-rewriting functions first (whatever they are called), then everything else
            names.sort(key=lambda q: not any(k in q.lower() for k in ("ellips", "quote", "replace", "rewrite", "smart", "cleanup", "unbold", "transform")))
        tried = 0
        for q in names[:case["max_points"]]:
            for occ in sorted({1, r.randint(1, rec[q])}):
                res, S = run((q, occ))
                tried += 1
                col.case()
                col.mon("schedule")
                col.count("preemption_points_tried")
                if S.switches:
                    col.distinct("preempt", case["seed"], q, occ)
                if res != solo:
                    i = 0 if res[0] != solo[0] else 1
                    col.violation("schedule", "C13/preempt/concurrent-result-differs-from-solo", dict(case, function=q, occurrence=occ),
                                  {"preempted_at": q, "occurrence": occ, "thread": i, "solo": (solo[i][0] or "")[:200],
                                   "concurrent": (res[i][0] or "")[:200]})
                    return
        col.hist("functions_started_by_one_call", min(len(names) // 50 * 50, 500))
        col.sample({"kind": "preempt", "functions_seen": len(names), "preemption_points_tried": tried})

    def _check_stress(self, case, col):
        r = random.Random(case["seed"])
        K, J = case["threads"], case["jobs"]
        pool = make_jobs(r, K * J)
        jobs = [pool[i * J:(i + 1) * J] for i in range(K)]
        solo = [[(lambda x: x if isinstance(x, str) else "RAISED:" + (x.kind if x.kind == "RecursionError" else x.text))(fm.fmt(t, **o)) for t, o in js] for js in jobs]
        res = [[None] * J for _ in range(K)]
        old = sys.getswitchinterval()
        sys.setswitchinterval(1e-6)

        def w(i):
            for n, (t, o) in enumerate(jobs[i]):
                x = fm.fmt(t, **o)
                res[i][n] = x if isinstance(x, str) else "RAISED:" + (x.kind if x.kind == "RecursionError" else x.text)
        try:
            ths = [threading.Thread(target=w, args=(i,)) for i in range(K)]
            for t in ths:
                t.start()
            for t in ths:
                t.join(300)
        finally:
            sys.setswitchinterval(old)
        col.case()
        col.mon("schedule")
        col.distinct("stress", case["seed"])
        if res != solo:
            col.violation("schedule", "C13/stress/concurrent-result-differs-from-solo", case, {"threads": K})


PROP = C13()
