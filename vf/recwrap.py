"""Recording LineWrapper: observes every paragraph the real renderer hands to the real wrapper.

The recorder is passed through fill_markdown's public `line_wrapper` parameter and wraps the public
factories line_wrap_to_width / line_wrap_by_sentence; a run is accepted only if its output equals
reformat_text's for the same options (so the observation did not change the behaviour)."""
from __future__ import annotations

import re

from vf import fm

_HB = re.compile(r"\\\n|  \n")
_TAG_EDGE = re.compile(r"(%\}|#\}|\}\}|-->)[ \t]*\n|\n[ \t]*(\{%|\{#|\{\{|<!--)")


class Recording:
    def __init__(self):
        self.calls: list[tuple[str, str, str, str]] = []
        self.mismatch = False
        self.output = ""

    @staticmethod
    def segments_of(text: str) -> tuple[list[str], str]:
        segs = _HB.split(text)
        if any(_TAG_EDGE.search(s) for s in segs):
            return segs, "mixed"  # tag-adjacent newlines: judged by C06, not here
        if len(segs) > 1:
            return segs, "hard"
        return segs, "none"


def record_paragraphs(text: str, width: int, semantic: bool, **extra):
    rec = Recording()
    factory = fm.line_wrap_by_sentence if semantic else fm.line_wrap_to_width
    base = fm.call(factory, width=width, is_markdown=True)
    if isinstance(base, fm.Raised):
        return base

    def recorder(t: str, ii: str, si: str) -> str:
        out = base(t, ii, si)
        rec.calls.append((t, ii, si, out))
        return out

    out = fm.call(fm.fill_markdown, text, width=width, semantic=semantic, line_wrapper=recorder, **extra)
    if isinstance(out, fm.Raised):
        return out
    ref = fm.fmt(text, width=width, semantic=semantic, **extra)
    rec.output = out
    rec.mismatch = isinstance(ref, fm.Raised) or ref != out
    return rec
