"""Shared base for the document-level properties (C02, C03, C04, C08, C09, C10): G-doc documents,
option-set generators, small helpers."""
from __future__ import annotations

import random
import re

from vf import astn, fm
from vf.core import Collector, Prop, shard_rng
from vf.gen_doc import gen_doc

WIDTHS = [0, -1, 1, 5, 8, 12, 20, 40, 72, 88, 120, 10 ** 6]


def rand_opts(r: random.Random, *, plaintext_p: float = 0.0, widths=WIDTHS, force: dict | None = None) -> dict:
    o = {"width": r.choice(widths) if r.random() < 0.6 else r.randint(1, 100), "semantic": r.random() < 0.5,
         "cleanups": r.random() < 0.5, "smartquotes": r.random() < 0.5, "ellipses": r.random() < 0.5,
         "list_spacing": r.choice(["preserve", "preserve", "loose", "tight"]), "plaintext": r.random() < plaintext_p}
    if force:
        o.update(force)
    return o


def opts_key(o: dict) -> str:
    return ",".join(f"{k}={o[k]}" for k in sorted(o))


def line_kind(line: str) -> str:
    s = line.lstrip("> ").lstrip()
    if not s:
        return "blank"
    if s.startswith("#"):
        return "heading"
    if re.match(r"([-*+]|\d+[.)])\s", s):
        return "list-item"
    if s.startswith(("```", "~~~")):
        return "fence"
    if s.startswith("|"):
        return "table"
    if s.startswith(("{%", "{{", "{#", "<!--")):
        return "tag-line"
    if s.startswith("[") and "]:" in s:
        return "definition"
    return "text"


def first_line_diff(a: str, b: str):
    la, lb = a.split("\n"), b.split("\n")
    for i, (x, y) in enumerate(zip(la, lb)):
        if x != y:
            return i, x, y
    if len(la) != len(lb):
        i = min(len(la), len(lb))
        return i, (la[i] if i < len(la) else None), (lb[i] if i < len(lb) else None)
    return None


class DocProp(Prop):
    profiles = ["core", "core", "typo", "tags"]
    ndocs = {"quick": 60, "thorough": 600}  # per shard
    soft_timeout = 40.0

    def doc_cases(self, tier, seed, shard, nshards):
        r = shard_rng(seed, self.id, shard)
        for i in range(self.ndocs[tier]):
            c = {"kind": "doc", "seed": r.getrandbits(40), "profile": r.choice(self.profiles)}
            if i % 10 == 7:
                # documents of a size small random cases never reach: lists of 10+ / 100+ items, long tables and code
                # blocks, dozens of blocks (vf/gen_doc.py, scale)
                c["scale"] = 8 if i % 20 == 7 else 3
            yield r, c

    def load(self, case) -> tuple[str, set]:
        if case["kind"] == "text":
            return case["text"], set(case.get("feats", []))
        d = gen_doc(case["seed"], case["profile"], layout_seed=case.get("layout_seed"), scale=case.get("scale", 1))
        return d.text, d.feats

    def feats_hist(self, col: Collector, feats) -> None:
        for f in feats:
            col.hist("features", f)


_PFX = r"(?:[ >]|[-*+] |\d+[.)] )*"


def ellipsis_mechanism(o1: str, o2: str) -> str | None:
    """Which listed ellipsis mechanism (if any) can account for the '...' runs the next pass converted.

    - 'ellipsis-at-line-start': the previous pass left the run FIRST on a line (after container prefixes / markers);
    - 'ellipsis-before-escaped-line-start': the previous pass left the run LAST on a line and escaped the first
      character of the next line (the backslash literal ends the text node, so the run is at the end of its node).
    The number of new ellipsis characters must not exceed the number of such runs in the previous output; anything
    else (e.g. a run at a line end followed by '(' on the next line) is not explained and must be reported.
    """
    lead = len(re.findall(r"(?m)^" + _PFX + r"\.\.\.", o1))
    trail = len(re.findall(r"(?m)\.\.\.[ \t]*\n" + _PFX + r"\\", o1))
    new = o2.count("…") - o1.count("…")
    if new <= 0:
        return None  # the next pass converted nothing: whatever changed, it is not one of the listed conversions
    if new <= lead:
        return "ellipsis-at-line-start"
    if new <= lead + trail:
        return "ellipsis-before-escaped-line-start"
    return None


def ellipsis_conversions_explained_by_line_starts(o1: str, o2: str) -> bool:
    return ellipsis_mechanism(o1, o2) == "ellipsis-at-line-start"


_PROTECTIVE_ESC = re.compile(r"\\(?=[-+*>#=|~`_])|(?<![\w\\])(\d+)\\(?=[.)])")


def drop_protective_escapes(t: str) -> str:
    """Remove the backslashes that protect a marker-like word ('\\-', '\\===', '12\\.'): a pass that changes line lengths (a
    converted ellipsis, converted quotes) re-wraps, and the re-wrap adds or leaves behind such escapes (KF-C03-sticky-escape)."""
    return _PROTECTIVE_ESC.sub(lambda m: m.group(1) or "", t)
