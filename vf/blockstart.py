"""Small CommonMark block-start recogniser written for the harness (oracle C of C01).
classify(line) -> name of the block construct that `line` would start (or continue as a setext
underline) if it followed a paragraph line, else None. `line` is given without container prefix."""
from __future__ import annotations

import re

_BULLET = re.compile(r"^ {0,3}[-+*]( +|\t|$)")
_ORDERED = re.compile(r"^ {0,3}(\d{1,9})[.)]( +|\t|$)")
_ATX = re.compile(r"^ {0,3}#{1,6}( |\t|$)")
_QUOTE = re.compile(r"^ {0,3}>")
_SETEXT = re.compile(r"^ {0,3}(=+|-+)[ \t]*$")
_HR = re.compile(r"^ {0,3}((\*[ \t]*){3,}|(-[ \t]*){3,}|(_[ \t]*){3,})$")
_FENCE_BT = re.compile(r"^ {0,3}`{3,}[^`]*$")
_FENCE_TL = re.compile(r"^ {0,3}~{3,}")
_HTML = re.compile(r"^ {0,3}(<(script|pre|style|textarea)[\s>]|<!--|<\?|<![A-Za-z]|<!\[CDATA\[|</?(address|article|aside|"
                   r"base|basefont|blockquote|body|caption|center|col|colgroup|dd|details|dialog|dir|div|dl|dt|fieldset|"
                   r"figcaption|figure|footer|form|frame|frameset|h[1-6]|head|header|hr|html|iframe|legend|li|link|main|"
                   r"menu|menuitem|nav|noframes|ol|optgroup|option|p|param|search|section|summary|table|tbody|td|tfoot|th|"
                   r"thead|title|tr|track|ul)(\s|/?>|$))", re.I)


def classify(line: str, interrupting_paragraph: bool = True) -> str | None:
    if _HR.match(line) and not _SETEXT.match(line):
        return "hr"
    if _SETEXT.match(line):
        return "setext"
    m = _BULLET.match(line)
    if m:
        rest = line[m.end():].strip()
        if rest or not interrupting_paragraph:
            return "bullet"
        return None  # an empty item cannot interrupt a paragraph
    m = _ORDERED.match(line)
    if m:
        rest = line[m.end():].strip()
        if not interrupting_paragraph:
            return "ordered"
        if rest and int(m.group(1)) == 1:
            return "ordered"
        return None  # only a non-empty item numbered 1 can interrupt a paragraph
    if _ATX.match(line):
        return "atx"
    if _QUOTE.match(line):
        return "quote"
    if _FENCE_BT.match(line) or _FENCE_TL.match(line):
        return "fence"
    if _HTML.match(line):
        return "html-block"
    return None
