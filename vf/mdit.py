"""Oracle B: an independent CommonMark reader (markdown-it-py, present in /venv) applied to both the
input (as flowmark documents reading it) and the output; the two token streams are normalised the
same way and compared with each other, so dialect differences between marko and markdown-it cancel.
"""
from __future__ import annotations

import re

try:
    from markdown_it import MarkdownIt

    _md = MarkdownIt("commonmark").enable("table").enable("strikethrough")
    AVAILABLE = True
except Exception:  # noqa: BLE001
    _md = None
    AVAILABLE = False

try:
    from marko.ext.pangu import PANGU_RE
except Exception:  # noqa: BLE001
    PANGU_RE = None

_WS = re.compile(r"\s+")


def norm_ws(s: str) -> str:
    return _WS.sub(" ", s).strip()


def _inl(tokens) -> tuple:
    out = []
    for t in tokens or []:
        if t.type == "text":
            out.append(("T", t.content))
        elif t.type == "softbreak":
            out.append(("T", " "))
        elif t.type == "hardbreak":
            out.append(("BR",))
        elif t.type == "code_inline":
            out.append(("CODE", norm_ws(t.content)))
        elif t.type == "html_inline":
            out.append(("HTML", norm_ws(t.content)))
        elif t.type == "image":
            out.append(("IMG", t.attrGet("src"), t.attrGet("title") or None, norm_ws(t.content)))
        elif t.type.endswith("_open"):
            out.append(("OPEN", t.type[:-5], t.attrGet("href"), t.attrGet("title") or None))
        elif t.type.endswith("_close"):
            out.append(("CLOSE", t.type[:-6]))
        else:
            out.append((t.type, t.content))
    res = []
    for x in out:
        if x[0] == "T" and res and res[-1][0] == "T":
            res[-1] = ("T", res[-1][1] + x[1])
        else:
            res.append(x)
    fin = []
    for x in res:
        if x[0] == "IMG":
            # the alternative text of an image is prose: same treatment as text
            alt = norm_ws(x[3])
            if PANGU_RE is not None:
                alt = re.sub(PANGU_RE, " ", alt)
            alt = re.sub(r"(?<=[⺀-鿿]) (?=[A-Za-z0-9])|(?<=[A-Za-z0-9]) (?=[⺀-鿿])", "", alt)
            fin.append(("IMG", x[1], x[2], alt))
        elif x[0] == "T":
            s = x[1]
            # the deliberate CJK/Latin space: compare text with that boundary space removed on both sides
            s = norm_ws(s)
            if PANGU_RE is not None:
                s = re.sub(PANGU_RE, " ", s)
            s = re.sub(r"(?<=[⺀-鿿]) (?=[A-Za-z0-9])|(?<=[A-Za-z0-9]) (?=[⺀-鿿])", "", s)
            fin.append(("T", s))
        else:
            fin.append(x)
    # whitespace at text-node edges next to other nodes is kept as a single space marker inside T
    return tuple(x for x in fin if x != ("T", ""))


def _body(text: str) -> str:
    """Without a leading frontmatter block (not Markdown; C07 judges it)."""
    if text.startswith("---"):
        from vf.astn import split_frontmatter_ref
        fm_, body = split_frontmatter_ref(text)
        if fm_:
            return body
    return text


def tokens(text: str) -> list:
    out = []
    text = _body(text)
    for t in _md.parse(text):
        if t.type == "inline":
            out.append(("INL", _inl(t.children)))
        elif t.type in ("fence", "code_block"):
            out.append(("CODEBLOCK", norm_ws(t.info) if t.type == "fence" else "", t.content.rstrip("\n")))
        elif t.type == "html_block":
            out.append(("HTMLBLOCK", norm_ws(t.content)))
        elif t.type == "ordered_list_open":
            out.append((t.type, t.attrGet("start") or 1))
        elif t.type in ("th_open", "td_open"):
            out.append((t.type, t.attrGet("style")))
        elif t.type in ("paragraph_open", "paragraph_close"):
            out.append((t.type, bool(t.hidden)))
        elif t.type == "heading_open":
            out.append((t.type, t.tag))
        else:
            out.append((t.type,))
    return out


def first_diff(a: list, b: list):
    for i, (x, y) in enumerate(zip(a, b)):
        if x != y:
            return i, x, y
    if len(a) != len(b):
        return min(len(a), len(b)), (a[len(b)] if len(a) > len(b) else None), (b[len(a)] if len(b) > len(a) else None)
    return None


_KIND = {"heading_open": "H", "paragraph_open": "P", "bullet_list_open": "LIST", "ordered_list_open": "LIST", "list_item_open": "ITEM",
         "blockquote_open": "QUOTE", "fence": "CODEBLOCK", "code_block": "CODEBLOCK", "hr": "HR", "table_open": "TABLE", "html_block": "HTMLBLOCK"}


def skeleton(text: str) -> list[str]:
    """Pre-order sequence of block kinds as markdown-it reads the text."""
    return [_KIND[t.type] for t in _md.parse(_body(text)) if t.type in _KIND]


def skeleton_of_tree(node, out=None) -> list[str]:
    """The same sequence from a normalised tree of flowmark's reader (vf.astn); link definitions leave no token in markdown-it."""
    out = out if out is not None else []
    if isinstance(node, tuple) and node and isinstance(node[0], str):
        k = node[0]
        if k in ("H", "P", "LIST", "ITEM", "QUOTE", "CODEBLOCK", "HR", "TABLE", "HTMLBLOCK"):
            out.append(k)
        if k in ("DOC", "LIST", "ITEM", "QUOTE"):
            for x in node[1:]:
                skeleton_of_tree(x, out)
    elif isinstance(node, tuple):
        for x in node:
            skeleton_of_tree(x, out)
    return out
