"""Runner: ./check CNN [--tier quick|thorough] [--seed N] [--replay PATH] [--shards N]

Spawns shard workers (subprocess.Popen, never multiprocessing.Pool), merges what their
monitors observed, replays the witnesses of known_findings.json, decides the three-valued
verdict and writes evidence/<ID>.json.

Exit codes: 0 held (possibly with KNOWN-FINDING lines), 1 violated (VIOLATION line),
3 inconclusive (INCONCLUSIVE line; never a VIOLATION line).
"""
from __future__ import annotations

import argparse
import json
import os
import re
import shutil
import subprocess
import sys
import tempfile
import time
from typing import Any

from vf.core import VF_HOME, VF_REPO, Collector, Inconclusive, h8, load_prop

KNOWN_PATH = os.path.join(VF_HOME, "known_findings.json")


def load_known(prop_id: str) -> list[dict[str, Any]]:
    try:
        with open(KNOWN_PATH) as f:
            data = json.load(f)
    except FileNotFoundError:
        return []
    return [e for e in data.get("findings", []) if e.get("property") == prop_id]


def slug(s: str) -> str:
    return re.sub(r"[^A-Za-z0-9._-]+", "_", s)[:80]


class Shard:
    def __init__(self, prop, tier, seed, idx, n, workdir, cases_file=None):
        self.prop, self.tier, self.seed, self.idx, self.n = prop, tier, seed, idx, n
        self.out = os.path.join(workdir, f"shard{idx}.json" if cases_file is None else f"known{idx}.json")
        self.cases_file = cases_file
        self.start = 0
        self.restarts = 0
        self.proc: subprocess.Popen | None = None
        self.t0 = 0.0
        self.merged_partial: list[dict] = []
        self.hung: list[int] = []
        self.per_case: list[list[str]] = []

    def launch(self):
        for ext in ("", ".cur"):
            try:
                os.remove(self.out + ext)
            except FileNotFoundError:
                pass
        cmd = [sys.executable, "-m", "vf.worker", self.prop.id, "--tier", self.tier, "--seed", str(self.seed),
               "--shard", str(self.idx), "--nshards", str(self.n), "--out", self.out, "--start", str(self.start)]
        if self.cases_file:
            cmd += ["--cases-file", self.cases_file]
        self.proc = subprocess.Popen(cmd, stdout=subprocess.DEVNULL, stderr=open(self.out + ".stderr", "a"))
        self.t0 = time.monotonic()

    def read(self) -> dict | None:
        try:
            with open(self.out) as f:
                return json.load(f)
        except (FileNotFoundError, json.JSONDecodeError):
            return None

    def cur(self) -> int | None:
        try:
            with open(self.out + ".cur") as f:
                return int(f.read().strip())
        except Exception:
            return None


def run_shards(shards: list[Shard], maxpar: int, wall_limit: float, col: Collector) -> None:
    pending = list(shards)
    running: list[Shard] = []
    while pending or running:
        while pending and len(running) < maxpar:
            s = pending.pop(0)
            s.launch()
            running.append(s)
        time.sleep(0.05)
        for s in list(running):
            rc = s.proc.poll()
            if rc is None:
                if time.monotonic() - s.t0 > wall_limit:
                    s.proc.kill()
                    s.proc.wait()
                    d = s.read()
                    if d:
                        col.merge(d)
                    col.inconcl(f"shard {s.idx}: wall-clock watchdog ({wall_limit:.0f}s) fired; run is incomplete")
                    running.remove(s)
                continue
            running.remove(s)
            d = s.read()
            if d is not None and d.get("done"):
                col.merge(d)
                if s.cases_file:
                    s.per_case = d.get("per_case", [])
                continue
            # worker died (hard watchdog or crash): note the case, restart after it
            cur = s.cur()
            if d is not None:
                # counts up to the last checkpoint are kept; cases between the checkpoint and
                # the death are re-run (from d['next']) except the one that killed the worker
                col.merge({**d, "samples": d.get("samples", [])})
                nxt = d.get("next", s.start)
            else:
                nxt = s.start
            s.restarts += 1
            tail = ""
            try:
                with open(s.out + ".err") as f:
                    tail = f.read()[-1500:]
            except Exception:
                pass
            if cur is None or s.restarts > 4:
                col.inconcl(f"shard {s.idx}: worker died (rc={rc}) and cannot be resumed: {tail[-300:]}")
                continue
            s.hung.append(cur)
            col.count("worker_deaths")
            col.note(f"shard {s.idx} died at case {cur} (rc={rc}); stack tail: {tail[-400:]}")
            # re-run from the checkpoint but skip the killer: simplest exact way is to restart
            # after the killer and accept re-counting nothing (cases nxt..cur-1 are re-run only
            # if the checkpoint was older than the killer)
            s.start = cur + 1
            if nxt < cur:
                col.count("cases_lost_between_checkpoint_and_death", cur - nxt)
            pending.append(s)


def case_at(prop, tier, seed, shard, n, index):
    for i, c in enumerate(prop.cases(tier, seed, shard, n)):
        if i == index:
            return c
    return None


def main() -> int:
    ap = argparse.ArgumentParser()
    ap.add_argument("prop")
    ap.add_argument("--tier", default=os.environ.get("VERIF_TIER") or "quick", choices=["quick", "thorough"])
    ap.add_argument("--seed", type=int, default=None)
    ap.add_argument("--replay")
    ap.add_argument("--shards", type=int, default=None)
    ap.add_argument("--no-evidence", action="store_true")
    a = ap.parse_args()
    seed = a.seed if a.seed is not None else int(os.environ.get("VERIF_SEED") or 0)
    pid = a.prop.upper()
    t_start = time.time()
    prop = load_prop(pid)

    if a.replay:
        return replay(prop, a.replay)

    workdir = tempfile.mkdtemp(prefix=f"vf-{pid}-")
    try:
        return run(prop, a.tier, seed, a.shards, workdir, t_start, not a.no_evidence)
    finally:
        shutil.rmtree(workdir, ignore_errors=True)


def replay(prop, path: str) -> int:
    from vf.core import assert_repo_under_test

    with open(path) as f:
        rec = json.load(f)
    case = rec["case"] if "case" in rec else rec
    col = Collector(prop.id)
    assert_repo_under_test()
    prop.setup_worker(col, "quick")
    prop.check(case, col)
    prop.teardown_worker(col)
    if col.violations:
        for desc, v in col.violations.items():
            print(f"replay: violation {desc}: {json.dumps(v['witnesses'][0]['detail'], ensure_ascii=False, default=str)[:2000]}")
        print(f"VIOLATION property={prop.id} replay={path}")
        return 1
    print(f"replay: no violation on this tree (evaluations={col.evaluations})")
    return 0


def run(prop, tier, seed, nshards_opt, workdir, t_start, write_evidence) -> int:
    pid = prop.id
    col = Collector(pid)
    n = nshards_opt or prop.nshards(tier)
    maxpar = min(16, os.cpu_count() or 4)
    wall_limit = 3600.0 if tier == "quick" else 6 * 3600.0

    known = load_known(pid)
    kshard = None
    witness_entries = [e for e in known if e.get("case") is not None]
    if witness_entries:
        cf = os.path.join(workdir, "known_cases.json")
        with open(cf, "w") as f:
            json.dump([e["case"] for e in witness_entries], f)
        kshard = Shard(prop, tier, seed, 9000, 1, workdir, cases_file=cf)

    shards = [Shard(prop, tier, seed, i, n, workdir) for i in range(n)]
    kcol = Collector(pid)
    if kshard:
        run_shards([kshard], 1, wall_limit, kcol)
    run_shards(shards, maxpar, wall_limit, col)

    # cases that killed their worker (hard watchdog)
    for s in shards:
        for idx in s.hung:
            c = case_at(prop, tier, seed, s.idx, n, idx)
            if c is not None:
                prop.on_timeout(c, col, True)

    out_lines: list[str] = []
    # --- known findings: re-execute each witness -------------------------------------
    known_desc: dict[str, dict] = {}
    for e in known:
        if e.get("status") == "known":
            for d in ([e["descriptor"]] if isinstance(e["descriptor"], str) else e["descriptor"]):
                known_desc[d] = e
    reproduced: dict[str, bool] = {}
    regress: list[tuple[dict, list[str]]] = []
    if kshard:
        hung_k = set(kshard.hung)
        for i, e in enumerate(witness_entries):
            fired = kshard.per_case[i] if i < len(kshard.per_case) else []
            if i in hung_k:
                # hard hang on a witness: let the property name it
                tmpc = Collector(pid)
                prop.on_timeout(e["case"], tmpc, True)
                fired = list(tmpc.violations)
            descs = [e["descriptor"]] if isinstance(e["descriptor"], str) else list(e["descriptor"])
            if e.get("status") == "known":
                reproduced[e["id"]] = any(d in fired for d in descs)
                other = [d for d in fired if d not in known_desc]
                if other:
                    regress.append((e, other))
            else:  # fixed: suppresses nothing; its witness must now pass (a LISTED finding it also meets is not its business)
                fired = [d for d in fired if d not in known_desc]
                if fired:
                    regress.append((e, fired))
        for r in kcol.inconclusive:
            col.inconcl("known-witness run: " + r)
    for e in known:
        if e.get("status") == "known":
            if e.get("case") is None or reproduced.get(e["id"]):
                out_lines.append(f"KNOWN-FINDING: property={pid} {e['id']}: {e['what_fails']}")
            else:
                out_lines.append(f"INFO: known finding {e['id']} no longer reproduces on this tree (entry is stale)")

    # --- verdict ------------------------------------------------------------------------
    unknown = {d: v for d, v in col.violations.items() if d not in known_desc}
    known_hits = {d: v["count"] for d, v in col.violations.items() if d in known_desc}
    for e, fired in regress:
        for d in fired:
            v = kcol.violations.get(d)
            if v is not None and d not in unknown:
                v = dict(v)
                v["from_known_witness"] = e["id"]
                unknown[d] = v

    replays: list[str] = []
    if unknown:
        rdir = os.path.join(VF_HOME, "replays", pid)
        shutil.rmtree(rdir, ignore_errors=True)
        os.makedirs(rdir, exist_ok=True)
        for d, v in sorted(unknown.items()):
            w = v["witnesses"][0] if v.get("witnesses") else {"case": None, "detail": None}
            rp = os.path.join("replays", pid, f"{slug(d)}-{h8(w['case'])}.json")
            with open(os.path.join(VF_HOME, rp), "w") as f:
                json.dump({"property": pid, "descriptor": d, "monitor": v.get("monitor"), "count": v["count"],
                           "tier": tier, "seed": seed, "case": w["case"], "detail": w["detail"]}, f, indent=1,
                          ensure_ascii=False, default=str)
            replays.append(rp)
            out_lines.append(f"violation {d} x{v['count']} monitor={v.get('monitor')}: "
                             f"{json.dumps(w['detail'], ensure_ascii=False, default=str)[:600]}")
            out_lines.append(f"VIOLATION property={pid} replay={rp}")

    # held needs every deciding monitor to have observed enough
    for mon, need in prop.deciding.items():
        got = col.monitors.get(mon, {}).get("evaluations", 0)
        if got < need_for(need, tier):
            col.inconcl(f"deciding monitor '{mon}' evaluated {got} times (< {need_for(need, tier)})")
    if len(col.nontrivial) < prop.min_nontrivial:
        col.inconcl(f"only {len(col.nontrivial)} distinct non-trivial cases observed")
    he = col.counters.get("harness_errors", 0)
    if he and he > max(3, col.evaluations // 100):
        col.inconcl(f"{he} harness errors in {col.evaluations} cases")

    verdict = "violated" if unknown else ("inconclusive" if col.inconclusive else "held")
    wall = time.time() - t_start

    if write_evidence:
        cov: dict[str, Any] = {
            "evaluations": col.evaluations,
            "distinct_nontrivial": len(col.nontrivial),
            "rule": prop.rule,
            "samples": col.samples[: Collector.MAX_SAMPLES] or [],
            "monitors": {k: dict(v) for k, v in sorted(col.monitors.items())},
            "counters": dict(sorted(col.counters.items())),
            "histograms": {k: dict(sorted(v.items(), key=lambda kv: -kv[1])[:40]) for k, v in sorted(col.hists.items())},
            "known_finding_hits": known_hits,
            "known_findings_reproduced": reproduced,
            "shards": n,
            "verdict": verdict,
            "inconclusive_reasons": col.inconclusive,
            "notes": col.notes,
            "repo_under_test": VF_REPO,
        }
        cov.update(prop.extra_evidence(col, tier))
        ev = {
            "property_id": pid,
            "tier": tier,
            "seed": seed,
            "level": prop.level,
            "coverage": cov,
            "assumptions": list(prop.assumptions),
            "wall_s": round(wall, 2),
            "violations": len(unknown),
        }
        os.makedirs(os.path.join(VF_HOME, "evidence"), exist_ok=True)
        tmp = os.path.join(VF_HOME, "evidence", f".{pid}.json.tmp")
        with open(tmp, "w") as f:
            json.dump(ev, f, indent=1, ensure_ascii=False, default=str)
        os.replace(tmp, os.path.join(VF_HOME, "evidence", f"{pid}.json"))

    mons = ", ".join(f"{k}={v['evaluations']}" for k, v in sorted(col.monitors.items()))
    print(f"{pid} tier={tier} seed={seed}: {col.evaluations} cases, {len(col.nontrivial)} distinct non-trivial, "
          f"monitors[{mons}], known-finding hits={sum(known_hits.values())}"
          + (f", HARNESS-ERRORS={he}" if he else "") + f", {wall:.1f}s")
    for line in out_lines:
        print(line)
    if verdict == "violated":
        return 1
    if verdict == "inconclusive":
        print(f"INCONCLUSIVE property={pid} reason={'; '.join(col.inconclusive)[:1500]}")
        return 3
    print(f"HELD property={pid} on everything explored")
    return 0


def need_for(need, tier):
    if isinstance(need, dict):
        return need.get(tier, need.get("quick", 1))
    return need


if __name__ == "__main__":
    sys.exit(main())
