"""Delta debugging of a violating text: lines -> words -> characters, keeping pred(text) true."""
from __future__ import annotations

import time
from typing import Callable


def _dd(parts: list[str], join: str, pred: Callable[[str], bool], deadline: float) -> list[str]:
    n = 2
    while len(parts) >= 2 and time.monotonic() < deadline:
        chunk = max(1, len(parts) // n)
        reduced = False
        i = 0
        while i < len(parts) and time.monotonic() < deadline:
            cand = parts[:i] + parts[i + chunk:]
            if cand and _safe(pred, join.join(cand)):
                parts = cand
                n = max(n - 1, 2)
                reduced = True
            else:
                i += chunk
        if not reduced:
            if chunk == 1:
                break
            n = min(len(parts), n * 2)
    return parts


def _safe(pred, text) -> bool:
    try:
        return bool(pred(text))
    except Exception:  # noqa: BLE001
        return False


def minimize(text: str, pred: Callable[[str], bool], budget_s: float = 10.0, chars: bool = True) -> str:
    """pred(text) must be True for the input; returns a smaller text on which it is still True."""
    deadline = time.monotonic() + budget_s
    if not _safe(pred, text):
        return text
    lines = _dd(text.split("\n"), "\n", pred, deadline)
    text = "\n".join(lines)
    # words within each line
    out_lines = list(lines)
    for li in range(len(out_lines)):
        if time.monotonic() > deadline:
            break
        words = out_lines[li].split(" ")
        if len(words) < 2:
            continue

        def p(s, li=li):
            return pred("\n".join(out_lines[:li] + [s] + out_lines[li + 1:]))

        out_lines[li] = " ".join(_dd(words, " ", p, deadline))
    text = "\n".join(out_lines)
    if chars and len(text) <= 400:
        text = "".join(_dd(list(text), "", pred, deadline))
    return text
