"""G-para: paragraph / word-sequence generator for the wrapping monitors (C05, C06, C11, C01-C).

All randomness comes from the Random instance handed in, so a (seed, shard) pair replays.
"""
from __future__ import annotations

import random

LETTERS = "abcdefghijklmnopqrstuvwxyz"
PLAIN = ("a to the of word longer sentence alpha beta gamma delta, x verylongwordhere (note this) and or "
         "e.g. U.S. 3.14 2024 v1.2 state-of-the-art co-op naïve café 中文 日本語 Ünïcode x=1 a/b foo_bar "
         "it's \"quoted\" don't wait... semi; colon: what?! (paren) [bracket] 100% $5 #1 @you").split()
SENT_END = ["end.", "stop!", "why?", "done.)", 'said."', "fine.", "okay.", "there?", "yes!", "it.", "so.'"]
NOT_END = ["Mr.", "A.", "3.", "U.S.", "e.g.", "ok:", "THE.", "x.", "42."]

# words that look like block syntax when they start a line
HAZ_ESCAPED = ["-", "+", "*", ">", "#", "##", "######", "1.", "2)", "10.", "007.", "123456789.", "123456789)"]
HAZ_UNESCAPED = ["---", "===", "=", "--", "***", "___", "```", "~~~", ">>", "|", "* * *", "- - -", "+x", "-x",
                 "#tag", "1.5", "\\", "&", "<", "####### ", ":", "[x]", "[ ]", "1.a", "-1.", "<=", "<-", "<3", ">=", "->", "80>120",
                 # the same look-alikes at the lengths people really write them (rulers, form blanks, fences with a language)
                 "====================", "--------------------", "____________________", "~~~~~~~~~~~~~~~~", "```typescript-react",
                 ">quotedtextfollows", "* * * * * * * * *", "************", "~~~~python-console"]

CODE_SPANS = ["`x`", "`a b`", "`a  b c`", "`` a`b ``", "`foo(bar, baz)`", "`--flag value`", "`*not em*`",
              "`<tag attr>`", "`a. B c`", "`end. Next`"]
LINKS = ["[link](http://ex.com/a)", "[two words](http://ex.com/a_b?q=1&r=2)", "[a b c d](u \"T t\")",
         "[ref text][r1]", "[r1]", "![alt text](img.png)", "![a](i.png \"ti tle\")",
         "[with `code` in](http://x.y)", "[*em* link](http://x.y/z)", "<https://example.org/path>",
         "[long link text that goes on and on](http://example.com/a/very/long/path/that/keeps/going)"]
TAGS = ["{% tag %}", "{% tag a=1 b=\"two words\" %}", "{% /tag %}", "{{ var }}", "{{ a.b | filter(\"x y\") }}",
        "{# note #}", "{# a longer comment here #}", "<!-- c -->", "<!-- a longer comment here -->",
        "<!-- /c -->", "{{ __version__ }}", "{% if obj.__class__ == x %}", "{# _note_ to self #}", "{{ a*b + c*d }}", "{% field kind=\"string\" id=\"name\" label=\"Full Name\" required=true %}"]
PAIRED = ["{% f %}{% /f %}", "{% f a=1 %} {% /f %}", "<!-- f --><!-- /f -->", "{{ a }}{{ /a }}", "{# a #}{# /a #}"]
ADJ_OPEN = ["{% a %}{% b %}", "{{a}}{{b}}", "<!-- a --><!-- b -->", "{% a %}{% b %}{% c %}"]
HTML = ["<span class=\"a b\">", "</span>", "<br/>", "<a href=\"http://x.y/z\" title=\"t t\">", "</a>", "<b>", "</b>"]


def rword(r: random.Random, lo: int = 1, hi: int = 9) -> str:
    return "".join(r.choice(LETTERS) for _ in range(r.randint(lo, hi)))


def plain_word(r: random.Random, hi: int = 12) -> str:
    k = r.random()
    if k < 0.5:
        return r.choice(PLAIN)
    if k < 0.9:
        return rword(r, 1, hi)
    return rword(r, hi, hi * 3)  # long unbreakable word


def sentence_words(r: random.Random, n: int, atoms: float = 0.0, haz: float = 0.0, haz_pool=None,
                   atom_pool=None, hi: int = 12) -> list[str]:
    """n words, the last one a sentence end."""
    out = []
    for i in range(max(1, n) - 1):
        k = r.random()
        if k < atoms:
            out.append(r.choice(atom_pool or (CODE_SPANS + LINKS + TAGS + HTML)))
        elif k < atoms + haz:
            out.append(r.choice(haz_pool or (HAZ_ESCAPED + HAZ_UNESCAPED)))
        elif k < atoms + haz + 0.04:
            out.append(r.choice(NOT_END))
        else:
            out.append(plain_word(r, hi))
    out.append(r.choice(SENT_END))
    if out[0][0].isalpha() and r.random() < 0.8:
        out[0] = out[0][0].upper() + out[0][1:]
    return out


def para_words(r: random.Random, nsent: int, atoms: float = 0.0, haz: float = 0.0, haz_pool=None,
               atom_pool=None, maxw: int = 12, hi: int = 12) -> list[list[str]]:
    return [sentence_words(r, r.randint(1, maxw), atoms, haz, haz_pool, atom_pool, hi) for _ in range(nsent)]


PREFIXES = [("", ""), ("- ", "  "), ("1. ", "   "), ("10. ", "    "), ("> ", "> "), ("> > ", "> > "),
            ("> - ", ">   "), ("  - ", "    "), ("[^note]: ", "    "), ("- > ", "  > "), ("    ", "    ")]


LONG_ATOM_KINDS = ["code", "code2", "link", "jtag", "jcomment", "jvar", "hcomment", "html"]
LONG_ATOM_SIZES = [420, 1050, 2200, 4300]  # around bounds a "simplified" pattern might put on a construct (400, 999/1000, 2048, 4096)


def long_atom(r: random.Random, kind: str | None = None, size: int | None = None) -> str:
    """One atomic construct of several hundred to several thousand characters, holding spaces, words that look like block
    markers (they would be escaped at a line start if the construct were wrapped like prose), quotes and dot runs (they
    would be converted if the construct were taken for prose)."""
    kind = kind or r.choice(LONG_ATOM_KINDS)
    size = size or r.choice(LONG_ATOM_SIZES)
    # (no word that ends a sentence: a sentence end inside a construct is the listed finding KF-C06-semantic-sentence-inside-unit)
    inner_pool = ["tar", "-", "cvf", "1.", "step", "#", "x", ">", "out", "+", "it's", "\"q\"", "wait...so", "so", "2)", "alpha", "beta",
                  "--flag", "value", "e.g.", "*", "~~~", "中文abc", "...and", "===", "|"]
    ws: list[str] = []
    n = 0
    while n < size:
        w = r.choice(inner_pool) if r.random() < 0.6 else rword(r, 2, 9)
        ws.append(w)
        n += len(w) + 1
    body = " ".join(ws)
    if kind == "code":
        return "`" + body + "`"
    if kind == "code2":
        return "``" + ("k " + body).replace(" ", " a`b ", 1) + "``"
    if kind == "link":
        return "[" + body.replace("\"q\"", "q").replace("中文abc", "abc") + "](http://x.y/long)"  # (link text is prose: CJK/Latin spacing)
    if kind == "jtag":
        return "{% field label='" + body.replace("it's", "its") + "' %}"
    if kind == "jcomment":
        return "{# " + body + " #}"
    if kind == "jvar":
        return "{{ f(" + body.replace("\"q\"", "q") + ") }}"
    if kind == "hcomment":
        return "<!-- " + body.replace("--flag", "flag") + " -->"
    return "<span title='" + body.replace("it's", "its").replace(">", "gt") + "'>"
