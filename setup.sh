#!/bin/bash
# Offline setup: install icontract + deal (runtime contracts) beside the repo's interpreter,
# into the git-ignored /verif/.deps. Idempotent; every check re-runs it when .deps is missing.
HERE="$(cd "$(dirname "$0")" && pwd)"
if [ ! -d "$HERE/.deps/icontract" ]; then
  PIP_NO_INDEX=1 /venv/bin/pip install --quiet --no-index --find-links /opt/veriftools/wheels \
      --target "$HERE/.deps" icontract deal >/dev/null 2>"$HERE/.deps.log" || {
        echo "setup: icontract/deal install failed (see .deps.log); contract monitors will report themselves off" >&2; }
fi
exit 0
