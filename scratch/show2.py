import sys, json
from vf import fm
from vf.docbase import first_line_diff, line_kind
from vf.gen_doc import gen_doc
from vf.minimize import minimize
rec=json.load(open(sys.argv[1])); c=rec['case']; o=c['opts'][0]
d=gen_doc(c['seed'],c['profile'])
def sig(t):
    a=fm.fmt(t,**o)
    if isinstance(a,fm.Raised): return None
    b=fm.fmt(a,**o)
    if isinstance(b,fm.Raised) or a==b: return None
    dd=first_line_diff(a,b); return line_kind(dd[1] or dd[2] or '')
want=sig(d.text); print(rec['descriptor'], want, o)
m=minimize(d.text, lambda t: sig(t)==want, 25, chars=True)
print(repr(m)); a=fm.fmt(m,**o); print('P1', repr(a)); print('P2', repr(fm.fmt(a,**o)))
