import sys, json
from vf import fm
from vf.gen_doc import gen_doc
from vf.astn import tree, first_diff, reference_input
from vf.minimize import minimize
rec=json.load(open(sys.argv[1])); c=rec['case']; w,sem=c['opts'][0]
d=gen_doc(c['seed'],c['profile'])
def sig(t):
    o=fm.fmt(t,width=w,semantic=sem)
    if isinstance(o,fm.Raised): return None
    a=tree(reference_input(t)); b=tree(o)
    if a==b: return None
    df=first_diff(a,b)
    k=lambda x: x[0] if isinstance(x,tuple) and x and isinstance(x[0],str) else type(x).__name__
    return (k(df[1]),k(df[2]),df[0][-1]=='len')
want=sig(d.text); print(rec['descriptor'], want, w, sem)
m=minimize(d.text, lambda t: sig(t)==want, 25, chars=(len(sys.argv)>2))
print(m); print('=====OUT'); o=fm.fmt(m,width=w,semantic=sem); print(o)
print(first_diff(tree(reference_input(m)),tree(o)))
