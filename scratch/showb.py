import sys, json
from vf import fm, mdit
from vf.gen_doc import gen_doc
from vf.astn import reference_input
from vf.minimize import minimize
rec=json.load(open(sys.argv[1])); c=rec['case']; w,sem=c['opts'][0]
d=gen_doc(c['seed'],c['profile'])
def sig(t):
    o=fm.fmt(t,width=w,semantic=sem)
    if isinstance(o,fm.Raised): return None
    a=mdit.tokens(reference_input(t)); b=mdit.tokens(o)
    if a==b: return None
    df=mdit.first_diff(a,b)
    return (df[1][0] if df[1] else None, df[2][0] if df[2] else None)
want=sig(d.text); print(rec['descriptor'], want, w, sem)
m=minimize(d.text, lambda t: sig(t)==want, 25, chars=False)
print(m); print('=====OUT'); o=fm.fmt(m,width=w,semantic=sem); print(o)
print(mdit.first_diff(mdit.tokens(reference_input(m)),mdit.tokens(o)))
