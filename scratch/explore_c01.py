import sys, faulthandler, collections, json
from vf import fm
from vf.gen_doc import gen_doc
from vf.astn import tree, first_diff, reference_input
from vf.minimize import minimize
profile = sys.argv[1] if len(sys.argv) > 1 else "core"
N = int(sys.argv[2]) if len(sys.argv) > 2 else 300
OPTS = ((88, False), (30, True), (12, False), (0, True))
def sig(t, w, sem):
    o = fm.fmt(t, width=w, semantic=sem)
    if isinstance(o, fm.Raised): return ('raised', o.kind, o.where)
    a = tree(reference_input(t)); b = tree(o)
    if a != b:
        df = first_diff(a, b)
        k = lambda x: x[0] if isinstance(x, tuple) and x and isinstance(x[0], str) else (type(x).__name__ if not isinstance(x,(bool,int)) else repr(x))
        return ('c01', k(df[1]), k(df[2]), 'len' if 'len' in df[0] else '')
    o2 = fm.fmt(o, width=w, semantic=sem)
    if o2 != o: return ('c02',)
    return None
stats = collections.Counter(); ex = {}
for seed in range(N):
    d = gen_doc(seed, profile)
    for (w, sem) in OPTS:
        faulthandler.dump_traceback_later(30, exit=True)
        s_ = sig(d.text, w, sem)
        faulthandler.cancel_dump_traceback_later()
        stats['n'] += 1
        if s_:
            stats[s_] += 1; ex.setdefault(s_, []).append((seed, w, sem))
for k, v in stats.most_common(): print(v, k)
for k, v in ex.items():
    for (seed, w, sem) in v[:2]:
        d = gen_doc(seed, profile)
        faulthandler.dump_traceback_later(120, exit=True)
        m = minimize(d.text, lambda t: sig(t, w, sem) == k, 15)
        faulthandler.cancel_dump_traceback_later()
        o = fm.fmt(m, width=w, semantic=sem)
        print(k, (seed, w, sem), '\n   IN ', repr(m), '\n   OUT', repr(o))
        if k[0]=='c02': print('   OUT2', repr(fm.fmt(o, width=w, semantic=sem)))
