import sys, json
from vf import fm
from vf.gen_doc import gen_doc
from vf.astn import tree, first_diff, reference_input
from vf.minimize import minimize
seed=int(sys.argv[1]); w=int(sys.argv[2]); sem=sys.argv[3]=='1'; mode=sys.argv[4] if len(sys.argv)>4 else 'c01'; profile=sys.argv[5] if len(sys.argv)>5 else 'core'
d=gen_doc(seed,profile)
def bad(t):
    o=fm.fmt(t,width=w,semantic=sem)
    if isinstance(o,fm.Raised): return False
    if mode=='c01': return tree(reference_input(t))!=tree(o)
    o2=fm.fmt(o,width=w,semantic=sem)
    return o2!=o and tree(reference_input(t))==tree(o)
m=minimize(d.text,bad,20)
print(repr(m)); o=fm.fmt(m,width=w,semantic=sem); print(repr(o)); 
if mode=='c01': print(first_diff(tree(reference_input(m)),tree(o)))
else: print(repr(fm.fmt(o,width=w,semantic=sem)))
