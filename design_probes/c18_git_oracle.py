import os, subprocess, tempfile, shutil, random, time
from pathlib import Path
from flowmark.file_resolver import FileResolver, FileResolverConfig
ENV = dict(os.environ, GIT_CONFIG_GLOBAL='/dev/null', GIT_CONFIG_NOSYSTEM='1', HOME='/nonexistent', GIT_CEILING_DIRECTORIES='/tmp')
PATS = ['*.tmp','b.md','/b.md','d1/b.md','d1/','/d1/','d?/','**/c.md','d1/**','!b.md','!d2/c.md','d1/*.md','*.md','!*.md','# c','\\#x.md','c.md ','[ab].md','d1/d2/','/*.md','**/d2/**']
rnd = random.Random(7)
def mk(root):
    dirs = ['', 'd1', 'd2', 'd1/d2', 'd1/d2/d3']
    for d in dirs:
        (root/d).mkdir(parents=True, exist_ok=True)
        for f in ['a.md','b.md','c.md','x.tmp']:
            if rnd.random()<0.8: (root/d/f).write_text('x\n')
        if rnd.random()<0.6:
            (root/d/'.gitignore').write_text('\n'.join(rnd.sample(PATS, rnd.randint(1,4)))+'\n')
t0=time.time(); n=0; dis=0; cls={}
for it in range(150):
    root = Path(tempfile.mkdtemp(prefix='vfgit', dir='/tmp'))
    try:
        mk(root)
        subprocess.run(['git','init','-q',str(root)], env=ENV, check=True, capture_output=True)
        out = subprocess.run(['git','-C',str(root),'ls-files','-co','--exclude-standard','-z'], env=ENV, check=True, capture_output=True).stdout.decode().split('\0')
        want = sorted(str(root/p) for p in out if p.endswith('.md'))
        got = sorted(str(p) for p in FileResolver(FileResolverConfig()).resolve([str(root)]))
        n+=1
        if want != got:
            dis+=1
            if dis<=3:
                print('DISAGREE', sorted(set(got)-set(want))[:4], sorted(set(want)-set(got))[:4])
                for g in root.rglob('.gitignore'): print('   ', g.relative_to(root), repr(g.read_text()))
    finally:
        shutil.rmtree(root)
print(n, 'trees', dis, 'disagree', round(time.time()-t0,1), 's')
