import itertools, re
from flowmark.typography.smartquotes import smart_quotes
from flowmark.typography.ellipses import ellipses
ALPHA = ['a','s',' ','"',"'",'.',',','\n','(',')','-','{%','%}','\\','`']
bad=[];n=0
CUR={'"':'“”',"'":'‘’'}
for L in range(1,6):
    for tup in itertools.product(ALPHA, repeat=L):
        s=''.join(tup); n+=1
        o=smart_quotes(s)
        if len(o)!=len(s): bad.append(('len',s,o)); continue
        for a,b in zip(s,o):
            if a!=b and not (a in CUR and b in CUR[a]): bad.append(('chr',s,o)); break
print(n,len(bad),bad[:5])
# ellipses: idempotence and confinement
ALPHA2=['a',' ','.','"',',','\n','!','(']
bad=[];n=0
for L in range(1,8):
    for tup in itertools.product(ALPHA2, repeat=L):
        s=''.join(tup); n+=1
        o=ellipses(s)
        if ellipses(o)!=o: bad.append(('idem',s,o,ellipses(o)))
        # inverse: replace … with ... and drop spaces adjacent to it on both sides
        def strip(x): return re.sub(r'\s*(\.\.\.|…)\s*','…',x)
        if strip(o)!=strip(s): bad.append(('conf',s,o))
print(n,len(bad),bad[:8])
