"""Scratch prototype of G-doc (tree + layout PRNG)."""
import random
WORDS = "the quick brown fox jumps over a lazy dog while many other small words fill out this sentence nicely and keep going on for some time alpha beta gamma delta epsilon 2024 3.14 e.g. U.S. item value=3 x-y a/b".split()
ENDS = ["done.", "there!", "why?", "ends.)", 'said."', "fine."]
class G:
    def __init__(self, seed): self.r = random.Random(seed); self.feats=set()
    def words(self, n): return [self.r.choice(WORDS) for _ in range(n)]
    def inline(self, depth=0):
        r=self.r; k=r.random()
        if k<0.55 or depth>1: return ' '.join(self.words(r.randint(1,6)))
        if k<0.63: self.feats.add('em'); return r.choice(['*','_'])+self.inline(depth+1).strip()+ '*' if False else '*'+' '.join(self.words(r.randint(1,3)))+'*'
        if k<0.70: self.feats.add('strong'); return '**'+' '.join(self.words(r.randint(1,3)))+'**'
        if k<0.78: self.feats.add('code'); return '`'+r.choice(['x = 1','foo(bar)','a  b','--flag','*not em*','<tag>'])+'`'
        if k<0.86: self.feats.add('link'); return '['+' '.join(self.words(r.randint(1,3)))+'](http://ex.com/'+r.choice(['a','a_b','p?q=1&r=2'])+(r.choice(['',' "T t"'])) +')'
        if k<0.90: self.feats.add('autolink'); return '<https://example.org/path>'
        if k<0.94: self.feats.add('strike'); return '~~'+' '.join(self.words(2))+'~~'
        if k<0.97: self.feats.add('img'); return '![alt text](img.png)'
        self.feats.add('html'); return '<span class="x">'+self.words(1)[0]+'</span>'
    def sentence(self):
        r=self.r; parts=[self.inline() for _ in range(r.randint(1,4))]
        s=' '.join(parts)
        return s[0].upper()+s[1:]+' '+r.choice(ENDS) if s[0].isalpha() else s+' '+r.choice(ENDS)
    def para_words(self): return ' '.join(self.sentence() for _ in range(self.r.randint(1,4)))
    def layout(self, text, L):
        # choose soft breaks at spaces outside atomic constructs: approximate by only breaking between top-level chunks
        toks = text.split(' ')
        out=[]; line=[]
        depth=0
        for t in toks:
            line.append(t)
            # crude atomic tracking
            depth += t.count('[')+t.count('`')%2 - t.count(')')*(1 if depth>0 else 0)
            if '`' in t and t.count('`')%2==1: pass
            if L.random()<0.25 and self._safe(' '.join(line)):
                out.append(' '.join(line)); line=[]
        if line: out.append(' '.join(line))
        return out
    def _safe(self, s):
        return s.count('`')%2==0 and s.count('[')==s.count(']') and s.count('(')==s.count(')') and s.count('<')==s.count('>') and s.count('*')%2==0 and s.count('~')%4==0 and s.count('"')%2==0
    def block(self, depth, L):
        r=self.r; k=r.random()
        if k<0.40 or depth>=3:
            self.feats.add('para'); return self.layout(self.para_words(), L)
        if k<0.50:
            self.feats.add('heading'); return ['#'*r.randint(1,4)+' '+' '.join(self.words(r.randint(1,5)))]
        if k<0.68:
            ordered=r.random()<0.4; self.feats.add('olist' if ordered else 'ulist')
            tight=r.random()<0.5; start=r.choice([1,1,3,10]); bullet=r.choice('-*+')
            lines=[]
            for i in range(r.randint(1,4)):
                marker=(f"{start+i}. " if ordered else bullet+' ')
                blocks=[self.block(depth+1,L) for _ in range(1 if tight else r.randint(1,2))]
                first=True
                for b in blocks:
                    if not first: lines.append('')
                    for j,l in enumerate(b):
                        pre = marker if (first and j==0) else ' '*len(marker)
                        lines.append((pre+l) if l else '')
                    first=False
                if not tight: lines.append('')
            while lines and lines[-1]=='': lines.pop()
            return lines
        if k<0.78:
            self.feats.add('quote'); inner=self.blocks(depth+1,L,r.randint(1,2))
            return [('> '+l) if l else '>' for l in inner]
        if k<0.88:
            self.feats.add('fence'); f=r.choice(['```','~~~','````']); info=r.choice(['','python','sh -x'])
            body=[r.choice(['x = 1','','  indented','> not quote','- not list','``` inner' if f!='```' else '~~~ inner','# no heading','\ttab']) for _ in range(r.randint(1,4))]
            return [f+info]+body+[f]
        if k<0.94:
            self.feats.add('table'); n=r.randint(2,3)
            row=lambda: '| '+' | '.join(r.choice(['a','b c','`x`','*e*','1\\|2']) for _ in range(n))+' |'
            return [row(), '|'+'|'.join(r.choice(['---',':--','--:',':-:']) for _ in range(n))+'|']+[row() for _ in range(r.randint(1,3))]
        self.feats.add('hr'); return [r.choice(['---','***','* * *'])]
    def blocks(self, depth, L, n):
        out=[]
        for i in range(n):
            if i: out.append('')
            out+=self.block(depth,L)
        return out
def gen(seed, lseed=0):
    g=G(seed); L=random.Random(lseed*7919+seed)
    lines=g.blocks(0,L,g.r.randint(1,5))
    return '\n'.join(lines)+'\n', g.feats
if __name__=='__main__':
    import sys
    t,f=gen(int(sys.argv[1])); print(t); print(f)
