exec(open(__import__('os').path.join(__import__('os').path.dirname(__file__),'c13_scheduler.py')).read().split("doc = open")[0])
# mutant: cache Markdown object per (wrapper id irrelevant) -> share across calls
from flowmark.linewrapping import markdown_filling as mf
_orig = mf.flowmark_markdown
_cache = {}
def cached(line_wrapper, list_spacing):
    # realistic "optimisation": one Markdown object per list_spacing, wrapper swapped in
    m = _cache.get(list_spacing)
    if m is None:
        m = _cache[list_spacing] = _orig(line_wrapper, list_spacing); m._setup_extensions()
    m.renderer._line_wrapper = line_wrapper
    return m
doc = open('/repo/tests/testdocs/testdoc.orig.md').read()
chunks = [c for c in re.split(r'\n(?=#+ )', doc) if len(c) < 3000]
rnd = random.Random(1)
jobs = [[(rnd.choice(chunks), dict(width=rnd.choice([0,30,88]), semantic=rnd.random()<.5, smartquotes=rnd.random()<.5)) for _ in range(6)] for _ in range(3)]
base = [[reformat_text(t, **kw) for t,kw in js] for js in jobs]
mf.flowmark_markdown = cached
seq = [[reformat_text(t, **kw) for t,kw in js] for js in jobs]
print('sequential with mutant equal to base:', seq == base)
bad=0
for seed in range(20):
    S = Sched(3, seed, p_switch=0.02)
    mon.set_events(TOOL, mon.events.PY_START)
    try:
        res = S.run(jobs)
    except Exception as e:
        res = None
    mon.set_events(TOOL, 0); mon.restart_events()
    if res != base: bad+=1
print('schedules detecting mutant:', bad, 'of 20')
