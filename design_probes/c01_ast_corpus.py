import re, sys
from flowmark import reformat_text
from astn import ast, first_diff
docs = {'testdoc': open('/repo/tests/testdocs/testdoc.orig.md').read(), 'readme': open('/repo/README.md').read()}
for name, doc in docs.items():
    chunks = re.split(r'\n(?=#+ )', doc)
    for w in (0, 10, 25, 40, 88):
        for sem in (False, True):
            nbad=0
            for i, ch in enumerate(chunks):
                a0 = ast(ch.strip()+'\n')
                out = reformat_text(ch, width=w, semantic=sem, cleanups=False)
                a1 = ast(out)
                d = first_diff(a0, a1)
                if d:
                    nbad+=1
                    if nbad<=3: print(name, w, sem, i, str(d)[:600])
            print('##', name, w, sem, 'bad', nbad, 'of', len(chunks))
