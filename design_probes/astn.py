"""Scratch: normalized AST of a markdown doc via flowmark's own marko parser."""
import re
from flowmark.formats.flowmark_markdown import flowmark_markdown
from marko import block, inline
from marko.ext.gfm import elements as gfm
from marko.ext import footnote

def norm_ws(s): return re.sub(r'\s+', ' ', s)

def inl(children):
    out = []
    def emit_text(t):
        if out and out[-1][0] == 'T': out[-1] = ('T', out[-1][1] + t)
        else: out.append(('T', t))
    for c in children:
        t = c.get_type()
        if t == 'RawText': emit_text(c.children)
        elif t == 'Literal': emit_text(c.children)
        elif t == 'LineBreak':
            if c.soft: emit_text(' ')
            else: out.append(('BR',))
        elif t == 'CodeSpan': out.append(('CODE', norm_ws(c.children)))
        elif t == 'Emphasis': out.append(('EM', inl(c.children)))
        elif t == 'StrongEmphasis': out.append(('STRONG', inl(c.children)))
        elif t == 'Strikethrough': out.append(('DEL', inl(c.children)))
        elif t == 'Link': out.append(('LINK', c.dest, c.title, inl(c.children)))
        elif t == 'Image': out.append(('IMG', c.dest, c.title, inl(c.children)))
        elif t in ('AutoLink','Url'): out.append(('AUTO', c.dest))
        elif t == 'InlineHTML': out.append(('HTML', norm_ws(c.children)))
        elif t == 'FootnoteRef': out.append(('FNREF', c.label))
        else: out.append((t, repr(getattr(c,'children',None))))
    res = []
    for x in out:
        if x[0]=='T':
            t = norm_ws(x[1])
            res.append(('T', t))
        else: res.append(x)
    # strip leading/trailing space of the run
    if res and res[0][0]=='T': res[0]=('T',res[0][1].lstrip())
    if res and res[-1][0]=='T': res[-1]=('T',res[-1][1].rstrip())
    res = [x for x in res if x != ('T','')]
    return tuple(res)

def blk(e):
    t = e.get_type()
    if t == 'BlankLine': return None
    if t == 'Document': return ('DOC', blks(e.children))
    if t == 'Paragraph':
        r = ('P', inl(e.children))
        if hasattr(e,'checked'): r = ('P', ('TASK', e.checked), inl(e.children))
        return r
    if t in ('Heading','SetextHeading'): return ('H', e.level, inl(e.children))
    if t == 'Quote': return ('QUOTE', blks(e.children))
    if t == 'Alert': return ('ALERT', e.alert_type, blks(e.children))
    if t == 'List': return ('LIST', e.ordered, e.start if e.ordered else e.bullet, e.tight, blks(e.children))
    if t == 'ListItem': return ('ITEM', blks(e.children))
    if t in ('FencedCode','CustomFencedCode','CodeBlock'):
        lang = getattr(e,'lang','') or ''; extra = getattr(e,'extra','') or ''
        return ('CODEBLOCK', lang, extra, e.children[0].children.rstrip('\n'))
    if t == 'ThematicBreak': return ('HR',)
    if t == 'LinkRefDef': return ('LRD', e.label, e.dest, e.title)
    if t == 'FootnoteDef': return ('FNDEF', e.label, blks(e.children))
    if t == 'Table': return ('TABLE', tuple(c.align for c in e.head.children), tuple(tuple(inl(c.children) for c in r.children) for r in e.children))
    if t == 'HTMLBlock': return ('HTMLBLOCK', e.body)
    return (t,)
def blks(ch): return tuple(x for x in (blk(c) for c in ch) if x is not None)
def ast(md): 
    d = flowmark_markdown().parse(md)
    return blk(d)
def first_diff(a, b, path=()):
    if type(a)!=type(b) or not isinstance(a, tuple): 
        return None if a==b else (path,a,b)
    if len(a)!=len(b): return (path+('len',), a, b)
    for i,(x,y) in enumerate(zip(a,b)):
        d = first_diff(x,y,path+(i,))
        if d: return d
    return None
