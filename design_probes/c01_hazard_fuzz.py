import random, sys
from flowmark import reformat_text
from flowmark.formats.flowmark_markdown import flowmark_markdown
HAZ = ['-','+','*','1.','2)','#','##','>','---','===','```','~~~','|','***','* * *','- -','10.','[x]','- [ ]', '1.','<div>','<!--','-->','{%','%}','    ','\\', '=','--', '_','___','+','>>','#hash','-x','1.x', ':---', '|a|b|']
WORDS = ['alpha','beta','gamma','de','e','zeta.','Eta!','theta','iota,','kappa']
def shape(md):
    doc = flowmark_markdown().parse(md)
    def s(e):
        t = e.get_type()
        ch = getattr(e,'children',None)
        if isinstance(ch, list):
            return (t, tuple(s(c) for c in ch if c.get_type() not in ('BlankLine',)))
        return (t,)
    return tuple(x[0] for x in s(doc)[1])
rnd = random.Random(int(sys.argv[1]) if len(sys.argv)>1 else 1)
seen = {}
N=0
for it in range(20000):
    n = rnd.randint(2, 14)
    words = [rnd.choice(HAZ) if rnd.random()<0.3 else rnd.choice(WORDS) for _ in range(n)]
    if words[0] in HAZ: words[0] = 'start'
    text = ' '.join(words)
    w = rnd.choice([1,5,8,10,12,15,20,30])
    sem = rnd.random()<0.3
    s0 = shape(text+'\n')
    if s0 != ('Paragraph',): continue
    N+=1
    try:
        out = reformat_text(text, width=w, semantic=sem, cleanups=False)
    except Exception as e:
        k=('EXC',type(e).__name__)
        if k not in seen: seen[k]=(text,w,sem); print(k, repr(text), w, sem)
        continue
    s1 = shape(out)
    out2 = reformat_text(out, width=w, semantic=sem, cleanups=False)
    if s1 != s0:
        # find culprit line
        k=('SHAPE', s1)
        if k not in seen:
            seen[k]=1; print(k, repr(text), w, sem, repr(out))
    elif out2 != out:
        k=('IDEM',)
        seen[k]=seen.get(k,0)+1
        if seen[k] <= 8: print(k, repr(text), w, sem, repr(out), repr(out2))
print(N, {k:v for k,v in seen.items() if k[0]=='IDEM'})
