# C05: exhaustive small sweep of wrap_paragraph_lines with simple splitter semantic
import itertools
from flowmark.linewrapping.text_wrapping import wrap_paragraph_lines, wrap_paragraph, simple_word_splitter
from flowmark.linewrapping.line_wrappers import line_wrap_to_width, line_wrap_by_sentence
bad = {}
n=0
for nw in range(1,6):
    for lens in itertools.product(range(1,5), repeat=nw):
        words = ['x'*l for l in lens]
        text = ' '.join(words)
        for width in range(1,9):
            for ic in range(0,4):
                for so in range(0,4):
                    n+=1
                    lines = wrap_paragraph_lines(text, width, initial_column=ic, subsequent_offset=so)
                    if ' '.join(lines).split() != words: bad.setdefault('words',[]).append((text,width,ic,so,lines))
                    for i,l in enumerate(lines):
                        off = ic if i==0 else so
                        if off+len(l) > width and len(l.split())>1: bad.setdefault('overlong',[]).append((text,width,ic,so,lines))
                        if i+1 < len(lines):
                            nxt = lines[i+1].split()[0]
                            if off+len(l)+1+len(nxt) <= width: bad.setdefault('notmax',[]).append((text,width,ic,so,lines))
                    if lines and lines[0]=='' : bad.setdefault('emptyfirst',[]).append((text,width,ic,so,lines))
print(n, {k:(len(v), v[:3]) for k,v in bad.items()})
