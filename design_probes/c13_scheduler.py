import sys, threading, random, re, time, hashlib
from flowmark import reformat_text
import flowmark, marko
mon = sys.monitoring
TOOL = mon.DEBUGGER_ID
ROOTS = ('/repo/src/flowmark', marko.__path__[0])

class Sched:
    def __init__(self, nthreads, seed, p_switch=0.05):
        self.rnd = random.Random(seed); self.p = p_switch
        self.sems = [threading.Semaphore(0) for _ in range(nthreads)]
        self.alive = [True]*nthreads
        self.cur = None
        self.tid = {}   # thread ident -> index
        self.switches = 0; self.points = 0
        self.trace = hashlib.sha256()
    def yield_point(self):
        i = self.tid.get(threading.get_ident())
        if i is None or i != self.cur: return
        self.points += 1
        if self.rnd.random() < self.p:
            self.switch(i)
    def switch(self, i, finished=False):
        cands = [k for k,a in enumerate(self.alive) if a and k != i]
        if not cands:
            return
        nxt = self.rnd.choice(cands)
        self.switches += 1; self.trace.update(bytes([nxt]))
        self.cur = nxt
        self.sems[nxt].release()
        if not finished:
            self.sems[i].acquire()
    def run(self, jobs_per_thread):
        res = [[None]*len(j) for j in jobs_per_thread]
        def worker(i):
            self.tid[threading.get_ident()] = i
            self.sems[i].acquire()
            try:
                for n,(t,kw) in enumerate(jobs_per_thread[i]):
                    res[i][n] = reformat_text(t, **kw)
            finally:
                self.alive[i] = False
                self.switch(i, finished=True)
        ths = [threading.Thread(target=worker, args=(i,)) for i in range(len(jobs_per_thread))]
        for t in ths: t.start()
        self.cur = 0; self.sems[0].release()
        for t in ths: t.join()
        return res

def on_start(code, off):
    if code.co_filename.startswith(ROOTS):
        S.yield_point()
    else:
        return mon.DISABLE
mon.use_tool_id(TOOL, 'vf-sched')
mon.register_callback(TOOL, mon.events.PY_START, on_start)

doc = open('/repo/tests/testdocs/testdoc.orig.md').read()
chunks = [c for c in re.split(r'\n(?=#+ )', doc) if len(c) < 3000]
rnd = random.Random(1)
jobs = [[(rnd.choice(chunks), dict(width=rnd.choice([0,30,88]), semantic=rnd.random()<.5, smartquotes=rnd.random()<.5)) for _ in range(6)] for _ in range(3)]
base = [[reformat_text(t, **kw) for t,kw in js] for js in jobs]
t0=time.time()
sigs=set(); tot_sw=0; tot_pts=0
for seed in range(20):
    S = Sched(3, seed, p_switch=0.02)
    mon.set_events(TOOL, mon.events.PY_START)
    res = S.run(jobs)
    mon.set_events(TOOL, 0)
    mon.restart_events()
    assert res == base, seed
    sigs.add(S.trace.hexdigest()); tot_sw += S.switches; tot_pts += S.points
print('20 schedules ok; distinct', len(sigs), 'switches', tot_sw, 'yield points', tot_pts, 'time', round(time.time()-t0,2))
t0=time.time(); [[reformat_text(t, **kw) for t,kw in js] for js in jobs]; print('solo time', round(time.time()-t0,3))
