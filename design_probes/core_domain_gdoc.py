import sys, random, collections, textwrap
from gen import gen
from astn import ast, first_diff
from flowmark import reformat_text
N=int(sys.argv[1]); fam=collections.Counter(); ex={}
OPTS=[dict(width=w,semantic=s) for w in (0,20,40,88) for s in (False,True)]
tot=0
for seed in range(N):
    x,feats=gen(seed,0); x2,_=gen(seed,1)
    a0=ast(textwrap.dedent(x).strip()+'\n')
    if ast(textwrap.dedent(x2).strip()+'\n')!=a0:
        fam['GEN-relayout-not-equivalent']+=1; ex.setdefault('GEN',(x,x2)); continue
    for o in OPTS:
        tot+=1
        y=reformat_text(x,cleanups=False,**o)
        d=first_diff(a0,ast(y))
        if d: k=('A',o['width'],o['semantic']); fam[k]+=1; ex.setdefault(k,(x,y,str(d)[:300]))
        y2=reformat_text(y,cleanups=False,**o)
        if y2!=y and not d: k=('IDEM',o['width'],o['semantic']); fam[k]+=1; ex.setdefault(k,(x,y,y2))
        yr=reformat_text(x2,cleanups=False,**o)
        if yr!=y and not d: k=('RELAYOUT',o['width'],o['semantic']); fam[k]+=1; ex.setdefault(k,(x,x2,y,yr))
print(tot,'evals'); 
for k,v in sorted(fam.items(),key=str): print(k,v)
import pprint
for k,v in list(ex.items())[:int(sys.argv[2])]:
    print('=====',k)
    for p in v: print(p); print('--')
