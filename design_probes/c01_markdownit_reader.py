import re, textwrap
from markdown_it import MarkdownIt
from flowmark import reformat_text
from flowmark.formats.frontmatter import split_frontmatter
md = MarkdownIt('commonmark').enable('table').enable('strikethrough')
def norm_ws(s): return re.sub(r'\s+',' ',s).strip()
def inl(tokens):
    out=[]; 
    for t in tokens or []:
        if t.type in ('text',): out.append(('T',t.content))
        elif t.type=='softbreak': out.append(('T',' '))
        elif t.type=='hardbreak': out.append(('BR',))
        elif t.type=='code_inline': out.append(('CODE',norm_ws(t.content)))
        elif t.type=='html_inline': out.append(('HTML',norm_ws(t.content)))
        elif t.type=='image': out.append(('IMG',t.attrGet('src'),t.attrGet('title'),norm_ws(t.content)))
        elif t.type.endswith('_open'): out.append(('OPEN',t.type[:-5],t.attrGet('href'),t.attrGet('title')))
        elif t.type.endswith('_close'): out.append(('CLOSE',t.type[:-6]))
        else: out.append((t.type,t.content))
    # merge text
    res=[]
    for x in out:
        if x[0]=='T' and res and res[-1][0]=='T': res[-1]=('T',res[-1][1]+x[1])
        else: res.append(x)
    res=[('T',norm_ws(x[1])) if x[0]=='T' else x for x in res]
    return tuple(x for x in res if x!=('T',''))
def toks(text):
    out=[]
    for t in md.parse(text):
        if t.type=='inline': out.append(('INL',inl(t.children)))
        elif t.type in ('fence','code_block'): out.append(('CODEBLOCK',t.info.strip() if t.type=='fence' else '', t.content.rstrip('\n')))
        elif t.type=='html_block': out.append(('HTMLBLOCK',norm_ws(t.content)))
        elif t.type in ('ordered_list_open',): out.append((t.type,t.attrGet('start') or 1))
        elif t.type in ('th_open','td_open'): out.append((t.type,t.attrGet('style')))
        elif t.type in ('paragraph_open','paragraph_close'): out.append((t.type,))  # hidden ignored (tightness)
        elif t.type=='heading_open': out.append((t.type,t.tag))
        else: out.append((t.type,))
    return out
def ref(text):
    fm,c=split_frontmatter(text)
    if fm: text=c
    return textwrap.dedent(text).strip()+'\n'
docs={'readme':open('/repo/README.md').read(),'testdoc':open('/repo/tests/testdocs/testdoc.orig.md').read()}
for name,doc in docs.items():
    chunks=re.split(r'\n(?=#+ )',doc)
    for w,sem in ((88,True),(88,False),(40,False),(20,False)):
        bad=0
        for i,ch in enumerate(chunks):
            a=toks(ref(ch)); o=reformat_text(ch,width=w,semantic=sem,cleanups=False); b=toks(o)
            if a!=b:
                bad+=1
                if bad<=4:
                    for x,y in zip(a,b):
                        if x!=y: print(name,w,sem,i,'\n   IN ',str(x)[:300],'\n   OUT',str(y)[:300]); break
                    else: print(name,w,sem,i,'len',len(a),len(b))
        print('##',name,w,sem,'bad',bad,'of',len(chunks))
