import re, random, time, sys, traceback, faulthandler, json
from flowmark import reformat_text
from flowmark.formats.flowmark_markdown import ListSpacing
rnd=random.Random(int(sys.argv[1]))
ATOMS=['a','b',' ','  ','\n','\n\n','\t','*','**','_','`','``','```','~','~~','[',']','(',')','<','>','!','#','-','+','1.','|','\\','{%','%}','{{','}}','{#','#}','<!--','-->','"',"'",'...','=','---','&amp;','<a>','</a>','http://x.y','\r\n','\r','\x00','\x0c','\u2028','é','中','😀',':','[^1]','[^1]:','[x]','>','> ','    ','- ','1) ','[!NOTE]','\u200b','$']
fam={}
t0=time.time(); n=0; slow=[]
while time.time()-t0<40:
    L=rnd.randint(1,40)
    s=''.join(rnd.choice(ATOMS) for _ in range(L))
    kw=dict(width=rnd.choice([-1,0,1,5,20,88]),semantic=rnd.random()<.5,cleanups=rnd.random()<.5,smartquotes=rnd.random()<.5,ellipses=rnd.random()<.5,list_spacing=rnd.choice(list(ListSpacing)),plaintext=rnd.random()<.1)
    if re.search(r"\]:[ ]*\t", s): continue
    n+=1
    open('/tmp/vf-probe-cur.json','w').write(json.dumps([s,{k:(v.value if hasattr(v,'value') else v) for k,v in kw.items()}]))
    faulthandler.dump_traceback_later(5, exit=True)
    t=time.time()
    try:
        o=reformat_text(s,**kw)
        if not kw['plaintext'] and not o.endswith('\n'): fam.setdefault('no-final-nl',[]).append((s,kw))
        if '\x00AC' in o or ('\x00' in o and '\x00' not in s): fam.setdefault('placeholder',[]).append((s,kw))
    except Exception as e:
        tb=traceback.extract_tb(e.__traceback__)[-1]
        k=(type(e).__name__, tb.filename.split('/')[-1], tb.name)
        fam.setdefault(k,[]).append((s,kw))
    faulthandler.cancel_dump_traceback_later()
    dt=time.time()-t
    if dt>0.5: slow.append((dt,s,kw))
print(n)
for k,v in fam.items(): print(k,len(v),repr(min(v,key=lambda x:len(x[0]))))
print('slow',slow[:3])
