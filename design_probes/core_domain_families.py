import sys, collections, textwrap
from gen import gen
from astn import ast, first_diff
from flowmark import reformat_text
fam=collections.Counter(); ex={}
for seed in range(int(sys.argv[1])):
    x,feats=gen(seed,0)
    a0=ast(textwrap.dedent(x).strip()+'\n')
    for o in (dict(width=88,semantic=False),dict(width=20,semantic=True)):
        y=reformat_text(x,cleanups=False,**o)
        d=first_diff(a0,ast(y))
        if d:
            path,a,b=d
            def head(t): 
                return t[0] if isinstance(t,tuple) and t and isinstance(t[0],str) else (tuple(head(u) for u in t)[:4] if isinstance(t,tuple) else t)
            k=(o['width'],str(head(a))[:60],str(head(b))[:60]); fam[k]+=1; ex.setdefault(k,(seed,str(a)[:200],str(b)[:200]))
        elif reformat_text(y,cleanups=False,**o)!=y:
            k=('IDEM',o['width']); fam[k]+=1; ex.setdefault(k,(seed,))
for k,v in fam.most_common(): print(v,k,ex[k])
