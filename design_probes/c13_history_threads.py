import re, random, threading, sys
from flowmark import reformat_text
doc = open('/repo/tests/testdocs/testdoc.orig.md').read()
chunks = re.split(r'\n(?=#+ )', doc)
rnd = random.Random(3)
jobs = [(rnd.choice(chunks), dict(width=rnd.choice([0,30,88]), semantic=rnd.random()<.5, cleanups=rnd.random()<.5, smartquotes=rnd.random()<.5, ellipses=rnd.random()<.5)) for _ in range(300)]
base = [reformat_text(t, **kw) for t, kw in jobs]
# history: reversed order
rev = [reformat_text(t, **kw) for t, kw in reversed(jobs)][::-1]
print('history-independent', rev == base)
# threads
sys.setswitchinterval(1e-6)
res = [None]*len(jobs)
def work(k):
    for i in range(k, len(jobs), 8):
        res[i] = reformat_text(jobs[i][0], **jobs[i][1])
ths = [threading.Thread(target=work, args=(k,)) for k in range(8)]
[t.start() for t in ths]; [t.join() for t in ths]
print('thread-equal', res == base, sum(a!=b for a,b in zip(res,base)))
