import re, itertools
from flowmark import reformat_text
docs = {'readme': open('/repo/README.md').read(), 'testdoc': open('/repo/tests/testdocs/testdoc.orig.md').read()}
O = [dict(width=30,semantic=False), dict(width=60,semantic=True), dict(width=0,semantic=False), dict(width=88,semantic=True), dict(width=88,semantic=False), dict(width=12, semantic=False)]
for name, doc in docs.items():
    chunks = re.split(r'\n(?=#+ )', doc)
    bad = {}
    for i,ch in enumerate(chunks):
        for o1, o2 in itertools.permutations(O, 2):
            a = reformat_text(reformat_text(ch, cleanups=False, **o1), cleanups=False, **o2)
            b = reformat_text(ch, cleanups=False, **o2)
            if a != b:
                k=(i,)
                if k not in bad:
                    import difflib
                    bad[k] = (o1,o2, ''.join(list(difflib.unified_diff(b.splitlines(1), a.splitlines(1), n=0))[:8]))
    print(name, 'chunks with some canonical-form failure:', len(bad), 'of', len(chunks))
    for k,v in list(bad.items())[:12]: print(k, v[0], v[1]); print(v[2])
