import random
from flowmark.linewrapping.line_wrappers import line_wrap_by_sentence, line_wrap_to_width
from flowmark.linewrapping.sentence_split_regex import heuristic_end_of_sentence as eos
rnd=random.Random(5)
W=['a','to','the','word','longer','sentence','Mr.','end.','stop!','why?','x.','(done.)','e.g.','U.S.','ok."', 'verylongwordthatisbig']
stats={}
ex={}
for it in range(60000):
    n=rnd.randint(1,25)
    words=[rnd.choice(W) for _ in range(n)]
    text=' '.join(words)
    width=rnd.choice([10,15,22,30,40,60,88])
    ii=rnd.choice(['','- ','> ','1. ','      - ','[^note]: '])
    si=' '*len(ii) if not ii.startswith('>') else ii
    if ii.startswith('[^'): si='    '
    md = rnd.random()<0.5
    out=line_wrap_by_sentence(width=width,is_markdown=md)(text,ii,si)
    lines=out.split('\n')
    if not lines[0].startswith(ii): stats['noindent0']=stats.get('noindent0',0)+1; ex.setdefault('noindent0',(text,width,ii,out)); continue
    body=[lines[0][len(ii):]]+[l[len(si):] for l in lines[1:]]
    if any(not l.startswith(si) for l in lines[1:]): stats['noindentN']=stats.get('noindentN',0)+1; ex.setdefault('noindentN',(text,width,ii,out))
    if ' '.join(body).split()!=words: stats['words']=stats.get('words',0)+1; ex.setdefault('words',(text,width,ii,out))
    for i,l in enumerate(body):
        ind=len(ii) if i==0 else len(si)
        if ind+len(l)>width and len(l.split())>1:
            stats['overlong']=stats.get('overlong',0)+1; ex.setdefault('overlong',(text,width,ii,out))
        ws=l.split()
        if i+1<len(body):
            nxt=body[i+1].split()[0]
            forced = ind+len(l)+1+len(nxt)>width
            if not eos(ws[-1]) and not forced:
                stats['unjustified-break']=stats.get('unjustified-break',0)+1; ex.setdefault('unjustified-break',(text,width,ii,out))
        # sentence ends inside line
        col=0
        for j,wd in enumerate(ws[:-1]):
            col+=len(wd)+(1 if j else 0)
            if eos(wd) and col>=20:
                stats['missed-break']=stats.get('missed-break',0)+1; ex.setdefault('missed-break',(text,width,ii,out))
print(stats)
for k,v in ex.items(): print(k,v)
