import random
from flowmark.linewrapping.line_wrappers import line_wrap_by_sentence
from flowmark.linewrapping.sentence_split_regex import split_sentences_regex, heuristic_end_of_sentence as eos
rnd=random.Random(11)
PLAIN=['a','to','the','word','longer','sentence','alpha','beta','gamma','delta,','x','verylongwordhere','(note','this)','and','or']
ENDS=['end.','stop!','why?','done.)','said."','fine.']
def sentence():
    n=rnd.randint(1,12)
    return [rnd.choice(PLAIN) for _ in range(n-1)]+[rnd.choice(ENDS)]
def line_of_word(lines):
    m=[]
    for li,l in enumerate(lines):
        m += [li]*len(l.split())
    return m
stats={'pairs':0,'prefix_bad':0,'suffix_bad':0,'nontrivial':0}
ex={}
for it in range(40000):
    k=rnd.randint(2,6)
    S=[sentence() for _ in range(k)]
    j=rnd.randrange(k)
    S2=[list(s) for s in S]
    # edit interior words of S[j]
    body=S2[j][:-1]
    op=rnd.choice(['ins','del','rep'])
    if op=='ins' or not body: body.insert(rnd.randint(0,len(body)), rnd.choice(PLAIN))
    elif op=='del': body.pop(rnd.randrange(len(body)))
    else: body[rnd.randrange(len(body))]=rnd.choice(PLAIN)
    S2[j]=body+[S2[j][-1]]
    width=rnd.choice([25,30,40,60,88]); ii=rnd.choice(['','- ','> ','1. ']); si=' '*len(ii) if ii!='> ' else ii
    t1=' '.join(w for s in S for w in s); t2=' '.join(w for s in S2 for w in s)
    assert [x.split() for x in split_sentences_regex(t1,0)]==S, (S, split_sentences_regex(t1,0))
    w=line_wrap_by_sentence(width=width,is_markdown=True)
    o1=w(t1,ii,si).split('\n'); o2=w(t2,ii,si).split('\n')
    b1=[o1[0][len(ii):]]+[l[len(si):] for l in o1[1:]]; b2=[o2[0][len(ii):]]+[l[len(si):] for l in o2[1:]]
    m1=line_of_word(b1); m2=line_of_word(b2)
    stats['pairs']+=1
    # word index where sentence i ends
    def ends(SS):
        e=[];c=0
        for s in SS: c+=len(s); e.append(c-1)
        return e
    e1=ends(S); e2=ends(S2)
    # claim 1
    if j>=1:
        p1=m1[e1[j-1]]; p2=m2[e2[j-1]]
        if o1[:p1]!=o2[:p2] :
            stats['prefix_bad']+=1; ex.setdefault('prefix',(t1,t2,width,ii,o1,o2))
        if p1>0: stats['nontrivial']+=1
    # claim 2
    for m in range(j,k):
        l1=m1[e1[m]]; l2=m2[e2[m]]
        last1 = (e1[m]+1==len(m1)) or m1[e1[m]+1]!=l1; last2 = (e2[m]+1==len(m2)) or m2[e2[m]+1]!=l2
        if last1 and last2 and len(b1[l1])>=20 and len(b2[l2])>=20:
            stats['suffix_checked']=stats.get('suffix_checked',0)+1
            if o1[l1+1:]!=o2[l2+1:]:
                stats['suffix_bad']+=1; ex.setdefault('suffix',(t1,t2,width,ii,o1,o2,m))
            break
print(stats)
for k,v in ex.items(): print(k); [print('  ',x) for x in v]
