import os, sys, io, errno, shutil
from pathlib import Path
W = Path('/tmp/vf-probe-c14/work')
EVENTS = ('open','os.rename','os.mkdir','os.remove','os.rmdir','os.truncate','os.link','os.symlink','os.chmod','shutil.move','shutil.copyfile')
state = {'armed': False, 'k': None, 'mode': None, 'n': 0, 'log': []}
def hook(ev, args):
    if not state['armed'] or ev not in EVENTS: return
    a0 = args[0]
    if isinstance(a0, bytes): a0 = a0.decode()
    if not isinstance(a0, str): return
    p = a0 if os.path.isabs(a0) else os.path.join(os.getcwd(), a0)
    if not p.startswith(str(W)): return
    state['n'] += 1
    state['log'].append((ev, tuple(str(x) for x in args[:3])))
    if state['k'] == state['n']:
        if state['mode'] == 'crash': os._exit(77)
        if state['mode'] == 'fault':
            state['armed'] = False
            raise OSError(errno.EIO, 'injected', a0)
sys.addaudithook(hook)
from flowmark.cli import main
OLD = "hello   world\n\nsecond    para\n"
def setup():
    shutil.rmtree(W, ignore_errors=True); W.mkdir(parents=True); (W/'a.md').write_text(OLD); (W/'b.md').write_text(OLD)
def snapshot():
    return {p.name: p.read_text() for p in sorted(W.iterdir())}
def run(argv, k=None, mode=None):
    state.update(armed=True, k=k, mode=mode, n=0, log=[])
    try:
        so, se = sys.stdout, sys.stderr; sys.stdout = io.StringIO(); sys.stderr = io.StringIO()
        try: rc = main(argv)
        finally: sys.stdout, sys.stderr = so, se
    finally:
        state['armed'] = False
    return rc
setup(); rc = run(['-i', str(W/'a.md'), str(W/'b.md')]); base_log = list(state['log']); NEW = (W/'a.md').read_text()
print('baseline rc', rc, 'events', len(base_log)); [print('  ', e) for e in base_log]
bad = 0; pts = set()
for k in range(1, len(base_log)+1):
    for mode in ('fault','crash'):
        setup()
        if mode == 'crash':
            pid = os.fork()
            if pid == 0:
                run(['-i', str(W/'a.md'), str(W/'b.md')], k, mode); os._exit(0)
            _, st = os.waitpid(pid, 0); rc = os.WEXITSTATUS(st)
        else:
            rc = run(['-i', str(W/'a.md'), str(W/'b.md')], k, mode)
        snap = snapshot()
        for f in ('a.md','b.md'):
            ok = snap.get(f) in (OLD, NEW) or (f not in snap and snap.get(f+'.orig') == OLD)
            if not ok: bad += 1; print('VIOL', k, mode, f, snap)
        pts.add((base_log[k-1][0], mode))
print('points', len(pts), 'bad', bad)
