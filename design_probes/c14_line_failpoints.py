"""Probe: crash points at every LINE event inside the dynamic extent of reformat_file
(flowmark/reformat_api.py, strif, pathlib), via sys.monitoring + fork/_exit.
Usage: c14_line_failpoints.py [mutant]   (mutant = direct Path.write_text instead of atomic file)"""
import os, sys, shutil, io
from pathlib import Path
import pathlib, strif.strif as strif_mod
from flowmark import reformat_api
mon = sys.monitoring; TOOL = mon.DEBUGGER_ID
W = Path('/tmp/vf-probe-c14l/work')
FILES = tuple(m.__file__ for m in (reformat_api, strif_mod, pathlib))
st = {'on': False, 'k': None, 'n': 0, 'where': None}
def on_line(code, line):
    if not st['on']: return
    if code.co_filename not in FILES: return mon.DISABLE
    st['n'] += 1
    if st['n'] == st['k']:
        os.write(3, f"{os.path.basename(code.co_filename)}:{code.co_name}:{line}".encode()) if st.get('pipe') else None
        os._exit(77)
mon.use_tool_id(TOOL, 'vf-c14'); mon.register_callback(TOOL, mon.events.LINE, on_line)

if len(sys.argv) > 1 and sys.argv[1] == 'mutant':
    _orig = reformat_api.reformat_file
    def direct(path, output, width=88, inplace=False, nobackup=False, plaintext=False, semantic=False, cleanups=True,
               smartquotes=False, ellipses=False, make_parents=True, list_spacing=None):
        text = Path(path).read_text()
        result = reformat_api.reformat_text(text, width, plaintext, semantic, cleanups, smartquotes, ellipses)
        Path(path).write_text(result)
    reformat_api.reformat_file = direct
    FILES = FILES + (__file__,)

OLD = "hello   world\n\nsecond    para\n" * 50
def setup():
    shutil.rmtree(W.parent, ignore_errors=True); W.mkdir(parents=True); (W/'a.md').write_text(OLD)
def run(k):
    st.update(on=True, k=k, n=0)
    mon.set_events(TOOL, mon.events.LINE)
    try:
        reformat_api.reformat_file(str(W/'a.md'), None, inplace=True, nobackup=True)
    finally:
        mon.set_events(TOOL, 0); st['on'] = False
setup(); run(None); total = st['n']; NEW = (W/'a.md').read_text()
bad = 0
for k in range(1, total+1):
    setup()
    pid = os.fork()
    if pid == 0:
        mon.restart_events(); run(k); os._exit(0)
    os.waitpid(pid, 0)
    got = (W/'a.md').read_text() if (W/'a.md').exists() else None
    if got not in (OLD, NEW):
        bad += 1; print('VIOLATION at line-event', k, 'target =', repr(got)[:40])
print('line events', total, 'bad end states', bad)
shutil.rmtree(W.parent, ignore_errors=True)
